"""py2coq-style translator for the two integer loops of fastparquet/api.py that property C06 is anchored in:

    ParquetFile.head       total_rows / i prefix-sum loop and the slice `self[:i+1]`
    ParquetFile.to_pandas  the row-group loop that hands `views[start:start+thislen]` to the reader and advances `start`
    ParquetFile.iter_row_groups   `i = self.row_groups.index(rg); df = self[i].to_pandas(...); if not df.empty: yield df`
                           (into the vocabulary of Dataset/Read.v: index_of, getitem_pick, to_pandas, frame_empty)

Python `ast` -> Gallina text (Gen/GenHead.v, Gen/GenToPandas.v, logical root PqGen).  The theorems over the generated
text are in coq/genproofs/GenReadProofs.v and are re-proved on every run.

Supported fragment (everything else: TranslatorError -> the check falls back to the hand model + correspondence):
  statements   NAME = e | NAME += e | NAME -= e | if c: S* [elif/else] | break | continue | for-loop over the row groups
               (`for i, rg in enumerate(self.row_groups)`, `for rg, sel in zip(rgs, selected)`)
               `parts = {name: (v if name.endswith('-catdef') else v[LO:HI]) for (name, v) in views.items()}`
               `self.read_row_group_file(rg, ..., assign=parts, ...)`        (the effect: fill parts with the rows of rg)
  expressions  integer literals, locals, the parameter nrows, rg.num_rows, + - unary-, comparisons >= > <= < == !=
  to_pandas    is translated on its default path: filters falsy (rgs = self.row_groups) and row_filter False
               (selected = [None] * len(rgs), hence `sel` is None in the loop; `sel.sum() if sel is not None else X` is X)
Locals are `option Z` (None = unbound); an expression over an unbound local makes the whole run None (UnboundLocalError).
"""
import ast
import hashlib
import os
import textwrap


class TranslatorError(Exception):
    pass


def _fail(node, msg):
    raise TranslatorError("%s at line %s: %s" % (msg, getattr(node, "lineno", "?"), ast.dump(node)[:160] if isinstance(node, ast.AST) else node))


def find_method(tree, cls, name):
    for n in tree.body:
        if isinstance(n, ast.ClassDef) and n.name == cls:
            for m in n.body:
                if isinstance(m, ast.FunctionDef) and m.name == name:
                    return m
    raise TranslatorError("method %s.%s not found" % (cls, name))


CMP = {ast.GtE: "Z.geb", ast.Gt: "Z.gtb", ast.LtE: "Z.leb", ast.Lt: "Z.ltb", ast.Eq: "Z.eqb", ast.NotEq: "zneb"}


class Tr:
    """translation of one loop nest; `consts` maps names to the marker 'None' (known to be None on the translated path)"""

    def __init__(self, params, consts=None, rgvar=None):
        self.params = list(params)          # integer parameters (bound)
        self.locals = []                    # integer locals in order of first binding
        self.consts = dict(consts or {})
        self.rgvar = rgvar
        self.slices = {}                    # name -> (lo expr, hi expr) for `parts`
        self.fresh = 0

    # ---- expressions ------------------------------------------------------------------------
    def expr(self, e):
        """-> Gallina term of type oz"""
        if isinstance(e, ast.Constant) and isinstance(e.value, int) and not isinstance(e.value, bool):
            return "(Some (%d))" % e.value
        if isinstance(e, ast.UnaryOp) and isinstance(e.op, ast.USub):
            return "(oneg %s)" % self.expr(e.operand)
        if isinstance(e, ast.Name):
            if e.id in self.params or e.id in self.locals:
                return e.id
            _fail(e, "unknown name")
        if isinstance(e, ast.Attribute) and isinstance(e.value, ast.Name) and e.value.id == self.rgvar and e.attr == "num_rows":
            return "(Some (num_rows rg))"
        if isinstance(e, ast.BinOp) and isinstance(e.op, (ast.Add, ast.Sub)):
            return "(%s %s %s)" % ("oadd" if isinstance(e.op, ast.Add) else "osub", self.expr(e.left), self.expr(e.right))
        if isinstance(e, ast.IfExp):
            c = self.static_cond(e.test)
            if c is None:
                _fail(e, "conditional expression whose test is not decided on the translated path")
            return self.expr(e.body if c else e.orelse)
        _fail(e, "unsupported expression")

    def static_cond(self, t):
        """`x is None` / `x is not None` for names known to be None on the translated path"""
        if (isinstance(t, ast.Compare) and len(t.ops) == 1 and isinstance(t.left, ast.Name) and t.left.id in self.consts
                and isinstance(t.comparators[0], ast.Constant) and t.comparators[0].value is None):
            if isinstance(t.ops[0], ast.Is):
                return True
            if isinstance(t.ops[0], ast.IsNot):
                return False
        return None

    def cond(self, t):
        """-> Gallina term of type option bool"""
        if isinstance(t, ast.Compare) and len(t.ops) == 1 and type(t.ops[0]) in CMP:
            return "(ocmp %s %s %s)" % (CMP[type(t.ops[0])], self.expr(t.left), self.expr(t.comparators[0]))
        if isinstance(t, ast.Compare) and len(t.ops) > 1 and all(type(o) in CMP for o in t.ops):
            # chained comparison a op1 b op2 c = (a op1 b) and (b op2 c), left to right with short circuit (the operands here are
            # names and constants: evaluating b twice is evaluating it once)
            terms = [t.left] + list(t.comparators)
            if not all(isinstance(x, (ast.Name, ast.Constant)) or (isinstance(x, ast.UnaryOp) and isinstance(x.operand, ast.Constant)) for x in terms[1:-1]):
                _fail(t, "chained comparison with a compound middle operand")
            parts = ["(ocmp %s %s %s)" % (CMP[type(o)], self.expr(a), self.expr(b)) for o, a, b in zip(t.ops, terms[:-1], terms[1:])]
            out = parts[-1]
            for p in reversed(parts[:-1]):
                out = "(oandb %s %s)" % (p, out)
            return out
        if isinstance(t, ast.BoolOp) and isinstance(t.op, (ast.And, ast.Or)):
            parts = [self.cond(v) for v in t.values]
            out = parts[-1]
            for p in reversed(parts[:-1]):
                out = "(%s %s %s)" % ("oandb" if isinstance(t.op, ast.And) else "oorb", p, out)
            return out
        if isinstance(t, ast.UnaryOp) and isinstance(t.op, ast.Not):
            return "(option_map negb %s)" % self.cond(t.operand)
        _fail(t, "unsupported condition")

    # ---- statements (continuation passing: k_next / k_break / k_cont are Gallina terms over the current locals) ---
    def bind(self, name):
        if name not in self.locals and name not in self.params:
            self.locals.append(name)

    def stmts(self, body, k_next, k_break, k_cont):
        if not body:
            return k_next
        s, rest = body[0], body[1:]
        after = lambda: self.stmts(rest, k_next, k_break, k_cont)       # noqa
        if isinstance(s, ast.Expr) and isinstance(s.value, ast.Constant) and isinstance(s.value.value, str):
            return after()
        if isinstance(s, ast.Assign) and len(s.targets) == 1 and isinstance(s.targets[0], ast.Name):
            name = s.targets[0].id
            if name in self.consts:
                if isinstance(s.value, ast.Constant) and s.value.value is None:
                    return after()              # sel = None where sel is None already
                _fail(s, "assignment to a name assumed None")
            sl = self.parts_slice(s.value)
            if sl is not None:
                self.slices[name] = sl
                return after()
            ev = self.expr(s.value)
            self.bind(name)
            return "match %s with None => None | Some v_ => let %s := Some v_ in\n%s end" % (ev, name, after())
        if isinstance(s, ast.AugAssign) and isinstance(s.target, ast.Name) and isinstance(s.op, (ast.Add, ast.Sub)):
            name = s.target.id
            if name not in self.locals:
                _fail(s, "augmented assignment to a name that is not an integer local")
            ev = "(%s %s %s)" % ("oadd" if isinstance(s.op, ast.Add) else "osub", name, self.expr(s.value))
            return "match %s with None => None | Some v_ => let %s := Some v_ in\n%s end" % (ev, name, after())
        if isinstance(s, ast.Break):
            return k_break
        if isinstance(s, ast.Continue):
            return k_cont
        if isinstance(s, ast.If):
            # the rest of the block is duplicated into both branches (blocks are tiny)
            c = self.static_cond(s.test)
            if c is not None:
                return self.stmts((s.body if c else s.orelse) + rest, k_next, k_break, k_cont)
            saved = list(self.locals)
            a = self.stmts(s.body + rest, k_next, k_break, k_cont)
            la = list(self.locals)
            self.locals = list(saved)
            b = self.stmts(s.orelse + rest, k_next, k_break, k_cont)
            if self.locals != la:
                _fail(s, "branches bind different locals")
            return "match %s with None => None\n| Some true => %s\n| Some false => %s end" % (self.cond(s.test), a, b)
        if isinstance(s, ast.Expr) and isinstance(s.value, ast.Call):
            c = s.value
            if (isinstance(c.func, ast.Attribute) and c.func.attr == "read_row_group_file" and c.args
                    and isinstance(c.args[0], ast.Name) and c.args[0].id == self.rgvar):
                kw = {k.arg: k.value for k in c.keywords}
                a = kw.get("assign")
                if not (isinstance(a, ast.Name) and a.id in self.slices):
                    _fail(s, "read_row_group_file without assign=<sliced views>")
                rf = kw.get("row_filter")
                if rf is not None and not (isinstance(rf, ast.Name) and rf.id in self.consts):
                    _fail(s, "row_filter is not the (None) selection")
                lo, hi = self.slices[a.id]
                return ("match %s, %s with\n| Some lo_, Some hi_ =>\n match write_slice lo_ hi_ (rows rg) out with None => None | Some out =>\n%s end\n"
                        "| _, _ => None end" % (lo, hi, after()))
        _fail(s, "unsupported statement")

    def parts_slice(self, v):
        """{name: (v if name.endswith('-catdef') else v[LO:HI]) for (name, v) in views.items()} -> (LO, HI) terms"""
        if not isinstance(v, ast.DictComp) or len(v.generators) != 1:
            return None
        g = v.generators[0]
        if not (isinstance(g.iter, ast.Call) and isinstance(g.iter.func, ast.Attribute) and g.iter.func.attr == "items"
                and isinstance(g.iter.func.value, ast.Name) and g.iter.func.value.id == "views" and not g.ifs):
            _fail(v, "dict comprehension is not over views.items()")
        if not (isinstance(g.target, ast.Tuple) and len(g.target.elts) == 2 and all(isinstance(x, ast.Name) for x in g.target.elts)):
            _fail(v, "unsupported comprehension target")
        kname, vname = g.target.elts[0].id, g.target.elts[1].id
        if not (isinstance(v.key, ast.Name) and v.key.id == kname):
            _fail(v, "keys are renamed")
        val = v.value
        if isinstance(val, ast.IfExp):
            t = val.test
            ok = (isinstance(t, ast.Call) and isinstance(t.func, ast.Attribute) and t.func.attr == "endswith"
                  and isinstance(t.func.value, ast.Name) and t.func.value.id == kname and len(t.args) == 1
                  and isinstance(t.args[0], ast.Constant) and t.args[0].value == "-catdef"
                  and isinstance(val.body, ast.Name) and val.body.id == vname)
            if not ok:
                _fail(v, "unsupported view selection")
            val = val.orelse
        if not (isinstance(val, ast.Subscript) and isinstance(val.value, ast.Name) and val.value.id == vname
                and isinstance(val.slice, ast.Slice) and val.slice.step is None
                and val.slice.lower is not None and val.slice.upper is not None):
            _fail(v, "views are not sliced [lo:hi]")
        return self.expr(val.slice.lower), self.expr(val.slice.upper)


def _strip_doc(body):
    if body and isinstance(body[0], ast.Expr) and isinstance(body[0].value, ast.Constant) and isinstance(body[0].value.value, str):
        return body[1:]
    return body


def _tuple_of(names):
    return "(" + ", ".join(names) + ")" if len(names) != 1 else names[0]


def _type_of(names):
    return "(" + " * ".join(["oz"] * len(names)) + ")%type" if len(names) != 1 else "oz"


HEADER = """(* GENERATED by translators/readloops.py from %s (%s, sha256 %s) - do not edit.
%s
*)
From Coq Require Import ZArith List Bool.
From Pq Require Import Dataset.PyPrelude.
Import ListNotations.
Open Scope Z_scope.
"""


def _src(fn, src_lines):
    return "\n".join("   " + l for l in src_lines[fn.lineno - 1:fn.end_lineno] if '"""' not in l or True)


def translate_head(tree, src_lines, path):
    fn = find_method(tree, "ParquetFile", "head")
    args = [a.arg for a in fn.args.args]
    if args != ["self", "nrows"] or fn.args.kwarg is None:
        _fail(fn, "signature of head changed")
    body = _strip_doc(fn.body)
    # pre-loop assignments, the loop, the return
    pre, loop, ret = [], None, None
    for s in body:
        if isinstance(s, ast.For):
            if loop is not None:
                _fail(s, "second loop")
            loop = s
        elif isinstance(s, ast.Return):
            ret = s
        elif loop is None:
            pre.append(s)
        else:
            _fail(s, "statement between the loop and the return")
    if loop is None or ret is None or loop.orelse:
        _fail(fn, "loop / return not found")
    it = loop.iter
    ok = (isinstance(it, ast.Call) and isinstance(it.func, ast.Name) and it.func.id == "enumerate" and len(it.args) == 1
          and isinstance(it.args[0], ast.Attribute) and it.args[0].attr == "row_groups"
          and isinstance(it.args[0].value, ast.Name) and it.args[0].value.id == "self"
          and isinstance(loop.target, ast.Tuple) and len(loop.target.elts) == 2
          and all(isinstance(x, ast.Name) for x in loop.target.elts))
    if not ok:
        _fail(loop, "loop is not `for i, rg in enumerate(self.row_groups)`")
    ivar, rgvar = loop.target.elts[0].id, loop.target.elts[1].id
    # return self[:E].to_pandas(**kwargs).head(nrows)
    r = ret.value
    ok = (isinstance(r, ast.Call) and isinstance(r.func, ast.Attribute) and r.func.attr == "head" and len(r.args) == 1
          and isinstance(r.args[0], ast.Name) and r.args[0].id == "nrows" and not r.keywords)
    tp = r.func.value if ok else None
    ok = ok and (isinstance(tp, ast.Call) and isinstance(tp.func, ast.Attribute) and tp.func.attr == "to_pandas" and not tp.args
                 and len(tp.keywords) == 1 and tp.keywords[0].arg is None)
    sub = tp.func.value if ok else None
    ok = ok and (isinstance(sub, ast.Subscript) and isinstance(sub.value, ast.Name) and sub.value.id == "self"
                 and isinstance(sub.slice, ast.Slice) and sub.slice.lower is None and sub.slice.step is None and sub.slice.upper is not None)
    if not ok:
        _fail(ret, "return is not `self[:E].to_pandas(**kwargs).head(nrows)`")
    tr = Tr(params=["nrows"], rgvar=rgvar)
    # locals bound before the loop
    pre_code = []
    for s in pre:
        if not (isinstance(s, ast.Assign) and len(s.targets) == 1 and isinstance(s.targets[0], ast.Name)):
            if isinstance(s, ast.Expr) and isinstance(s.value, ast.Constant):
                continue
            _fail(s, "unsupported statement before the loop")
        pre_code.append((s.targets[0].id, tr.expr(s.value)))
        tr.bind(s.targets[0].id)
    bound_before = list(tr.locals)
    tr.bind(ivar)
    # translate the body once to learn the locals, then again with the final list
    for _ in range(2):
        L = list(tr.locals)
        k_next = "head_loop rest (k + 1) nrows %s" % " ".join(L)
        k_break = "Some %s" % _tuple_of(L)
        body_code = tr.stmts(loop.body, k_next, k_break, k_next)
        if tr.locals == L:
            break
    else:
        _fail(loop, "locals do not stabilise")
    L = list(tr.locals)
    stop = tr.expr(sub.slice.upper)
    out = [HEADER % (path, "ParquetFile.head", hashlib.sha256("\n".join(src_lines[fn.lineno - 1:fn.end_lineno]).encode()).hexdigest()[:16],
                     _src(fn, src_lines).replace("(*", "( *").replace("*)", "* )"))]
    out.append("Section GenHead.\nVariable D : Type.\nVariable num_rows : D -> Z.\n")
    out.append("(* locals, in order of first binding: %s; loop index variable: %s *)" % (" ".join(L), ivar))
    out.append("Fixpoint head_loop (rgs : list D) (k : Z) (nrows : oz) (%s : oz) {struct rgs} : option %s :=" % (" ".join(L), _type_of(L)))
    out.append("  match rgs with\n  | [] => Some %s\n  | rg :: rest =>\n    let %s := Some k in" % (_tuple_of(L), ivar))
    out.append(textwrap.indent(body_code, "    "))
    out.append("  end.\n")
    out.append("(* the value E of `self[:E]`; None = the function raised (a local was read before it was bound) *)")
    out.append("Definition head_stop (rgs : list D) (nrows_ : Z) : option Z :=\n  let nrows := Some nrows_ in")
    for name in L:
        if name not in bound_before:
            out.append("  let %s : oz := None in" % name)
    for name, ev in pre_code:
        out.append("  match %s with None => None | Some v_ => let %s := Some v_ in" % (ev, name))
    out.append("  match head_loop rgs 0 nrows %s with\n  | None => None\n  | Some %s => %s\n  end" % (" ".join(L), _tuple_of(L), stop))
    out.append("  " + " ".join("end" for _ in pre_code) + ".")
    out.append("End GenHead.")
    return "\n".join(out) + "\n"


def translate_to_pandas(tree, src_lines, path):
    fn = find_method(tree, "ParquetFile", "to_pandas")
    body = _strip_doc(fn.body)
    # facts about the translated path, checked syntactically
    src = "\n".join(src_lines[fn.lineno - 1:fn.end_lineno])
    loop = None
    start_init = None
    pos_loop = None
    for k, s in enumerate(body):
        if isinstance(s, ast.For):
            loop, pos_loop = s, k
    if loop is None or loop.orelse:
        _fail(fn, "row-group loop not found")
    # rgs = filter_row_groups(self, filters) if filters else self.row_groups
    rgs_ok = False
    selected_ok = False
    for s in ast.walk(fn):
        if isinstance(s, ast.Assign) and len(s.targets) == 1 and isinstance(s.targets[0], ast.Name):
            if s.targets[0].id == "rgs" and isinstance(s.value, ast.IfExp) and isinstance(s.value.test, ast.Name) and s.value.test.id == "filters" \
                    and isinstance(s.value.orelse, ast.Attribute) and s.value.orelse.attr == "row_groups":
                rgs_ok = True
            if s.targets[0].id == "selected" and isinstance(s.value, ast.BinOp) and isinstance(s.value.op, ast.Mult) \
                    and isinstance(s.value.left, ast.List) and len(s.value.left.elts) == 1 \
                    and isinstance(s.value.left.elts[0], ast.Constant) and s.value.left.elts[0].value is None:
                selected_ok = True
    if not (rgs_ok and selected_ok):
        _fail(fn, "`rgs = ... if filters else self.row_groups` / `selected = [None] * len(rgs)` not found")
    it = loop.iter
    ok = (isinstance(it, ast.Call) and isinstance(it.func, ast.Name) and it.func.id == "zip" and len(it.args) == 2
          and isinstance(it.args[0], ast.Name) and it.args[0].id == "rgs" and isinstance(it.args[1], ast.Name) and it.args[1].id == "selected"
          and isinstance(loop.target, ast.Tuple) and len(loop.target.elts) == 2 and all(isinstance(x, ast.Name) for x in loop.target.elts))
    if not ok:
        _fail(loop, "loop is not `for rg, sel in zip(rgs, selected)`")
    rgvar, selvar = loop.target.elts[0].id, loop.target.elts[1].id
    tr = Tr(params=[], consts={selvar: "None"}, rgvar=rgvar)
    # integer locals initialised at top level before the loop and used in it: those assigned an int literal
    used = {n.id for n in ast.walk(loop) if isinstance(n, ast.Name)}
    pre_code = []
    for s in body[:pos_loop]:
        if isinstance(s, ast.Assign) and len(s.targets) == 1 and isinstance(s.targets[0], ast.Name) and s.targets[0].id in used \
                and isinstance(s.value, ast.Constant) and isinstance(s.value.value, int) and not isinstance(s.value.value, bool):
            pre_code.append((s.targets[0].id, tr.expr(s.value)))
            tr.bind(s.targets[0].id)
    bound_before = list(tr.locals)
    # the size of the pre-allocated output on this path: size = sum(rg.num_rows for rg in rgs)
    size_ok = any(isinstance(s, ast.Assign) and isinstance(s.targets[0], ast.Name) and s.targets[0].id == "size"
                  and isinstance(s.value, ast.Call) and isinstance(s.value.func, ast.Name) and s.value.func.id == "sum"
                  for s in ast.walk(fn))
    if not size_ok:
        _fail(fn, "`size = sum(rg.num_rows for rg in rgs)` not found")
    ret = body[-1]
    if not (isinstance(ret, ast.Return) and isinstance(ret.value, ast.Name) and ret.value.id == "df"):
        _fail(ret, "to_pandas does not end with `return df`")
    for _ in range(3):
        L = list(tr.locals)
        k_next = "tp_loop rest %s out" % " ".join(L) if L else "tp_loop rest out"
        body_code = tr.stmts(loop.body, k_next, "Some out", k_next)
        if tr.locals == L:
            break
    else:
        _fail(loop, "locals do not stabilise")
    L = list(tr.locals)
    out = [HEADER % (path, "ParquetFile.to_pandas (row-group loop, default path: no filters, row_filter=False)",
                     hashlib.sha256(src.encode()).hexdigest()[:16],
                     "\n".join("   " + l for l in src_lines[loop.lineno - 2:loop.end_lineno]).replace("(*", "( *").replace("*)", "* )"))]
    out.append("Section GenToPandas.\nVariables D R : Type.\nVariable num_rows : D -> Z.\nVariable rows : D -> list R.\n")
    out.append("(* integer locals carried around the loop: %s *)" % " ".join(L))
    out.append("Fixpoint tp_loop (rgs : list D) (%s : oz) (out : list (option R)) {struct rgs} : option (list (option R)) :=" % " ".join(L))
    out.append("  match rgs with\n  | [] => Some out\n  | rg :: rest =>")
    out.append(textwrap.indent(body_code, "    "))
    out.append("  end.\n")
    out.append("(* size = sum(rg.num_rows for rg in rgs); views = pre_allocate(size); the loop *)")
    out.append("Definition tp_read (rgs : list D) : option (list (option R)) :=")
    for name in L:
        if name not in bound_before:
            out.append("  let %s : oz := None in" % name)
    for name, ev in pre_code:
        out.append("  match %s with None => None | Some v_ => let %s := Some v_ in" % (ev, name))
    out.append("  tp_loop rgs %s (repeat None (Z.to_nat (fold_right Z.add 0 (map num_rows rgs))))" % " ".join(L))
    out.append("  " + " ".join("end" for _ in pre_code) + ".")
    out.append("End GenToPandas.")
    return "\n".join(out) + "\n"


# ------------------------------------------------------------------------------------------------------------------
# iter_row_groups: statements over handles and frames, translated into the vocabulary of Dataset/Read.v

class IterTr:
    """`for rg in rgs:` body of ParquetFile.iter_row_groups (default path: filters falsy, so rgs = self.row_groups).
    Values: nat index (from `self.row_groups.index(rg)` or an integer literal), frame (from `self[IDX].to_pandas(filters=filters,
    **kwargs)`), booleans over frames (`df.empty`, `len(df)`, `len(df.index)`, `len(df.columns)` compared with literals, not/and/or)."""

    def __init__(self, rgvar):
        self.rgvar = rgvar
        self.kind = {}          # local name -> 'index' | 'frame'

    def index_expr(self, e):
        """-> Gallina term of type res Z (Python int used as subscript)"""
        if isinstance(e, ast.Constant) and isinstance(e.value, int) and not isinstance(e.value, bool):
            return "(Ok (%d)%%Z)" % e.value
        if (isinstance(e, ast.Call) and isinstance(e.func, ast.Attribute) and e.func.attr == "index" and len(e.args) == 1 and not e.keywords
                and isinstance(e.func.value, ast.Attribute) and e.func.value.attr == "row_groups"
                and isinstance(e.func.value.value, ast.Name) and e.func.value.value.id == "self"
                and isinstance(e.args[0], ast.Name) and e.args[0].id == self.rgvar):
            return "(match index_of deqb rg (h_rgs h) with Some i_ => Ok (Z.of_nat i_) | None => Fail ValueError end)"
        _fail(e, "unsupported row-group index expression")

    def frame_expr(self, e):
        """self[NAME].to_pandas(filters=filters, **kwargs) -> Gallina term of type res frame"""
        ok = (isinstance(e, ast.Call) and isinstance(e.func, ast.Attribute) and e.func.attr == "to_pandas" and not e.args)
        if ok:
            kws = e.keywords
            named = {k.arg: k.value for k in kws if k.arg is not None}
            star = [k for k in kws if k.arg is None]
            ok = (len(star) == 1 and isinstance(star[0].value, ast.Name) and star[0].value.id == "kwargs"
                  and set(named) <= {"filters"} and all(isinstance(v, ast.Name) and v.id == "filters" for v in named.values()))
        sub = e.func.value if ok else None
        ok = ok and isinstance(sub, ast.Subscript) and isinstance(sub.value, ast.Name) and sub.value.id == "self" \
            and isinstance(sub.slice, ast.Name) and self.kind.get(sub.slice.id) == "index"
        if not ok:
            _fail(e, "unsupported frame expression (expected self[i].to_pandas(filters=filters, **kwargs))")
        return "(bind (getitem_pick h %s) (fun h_ => to_pandas neqb rows nrows h_ o))" % sub.slice.id

    def nat_expr(self, e):
        if isinstance(e, ast.Constant) and isinstance(e.value, int) and not isinstance(e.value, bool) and e.value >= 0:
            return "%d" % e.value
        if isinstance(e, ast.Call) and isinstance(e.func, ast.Name) and e.func.id == "len" and len(e.args) == 1:
            a = e.args[0]
            if isinstance(a, ast.Name) and self.kind.get(a.id) == "frame":
                return "(length (f_rows %s))" % a.id
            if isinstance(a, ast.Attribute) and isinstance(a.value, ast.Name) and self.kind.get(a.value.id) == "frame":
                if a.attr == "index":
                    return "(length (f_rows %s))" % a.value.id
                if a.attr == "columns":
                    return "(length (f_cols %s))" % a.value.id
        _fail(e, "unsupported size expression")

    def bool_expr(self, t):
        if isinstance(t, ast.UnaryOp) and isinstance(t.op, ast.Not):
            return "(negb %s)" % self.bool_expr(t.operand)
        if isinstance(t, ast.BoolOp):
            op = "andb" if isinstance(t.op, ast.And) else "orb"
            out = self.bool_expr(t.values[0])
            for v in t.values[1:]:
                out = "(%s %s %s)" % (op, out, self.bool_expr(v))
            return out
        if isinstance(t, ast.Attribute) and t.attr == "empty" and isinstance(t.value, ast.Name) and self.kind.get(t.value.id) == "frame":
            return "(frame_empty %s)" % t.value.id
        if isinstance(t, ast.Compare) and len(t.ops) == 1:
            a, b = self.nat_expr(t.left), self.nat_expr(t.comparators[0])
            op = t.ops[0]
            if isinstance(op, ast.Gt):
                return "(Nat.ltb %s %s)" % (b, a)
            if isinstance(op, ast.GtE):
                return "(Nat.leb %s %s)" % (b, a)
            if isinstance(op, ast.Lt):
                return "(Nat.ltb %s %s)" % (a, b)
            if isinstance(op, ast.LtE):
                return "(Nat.leb %s %s)" % (a, b)
            if isinstance(op, ast.Eq):
                return "(Nat.eqb %s %s)" % (a, b)
            if isinstance(op, ast.NotEq):
                return "(negb (Nat.eqb %s %s))" % (a, b)
        _fail(t, "unsupported condition over a frame")

    def body(self, stmts):
        """-> Gallina term of type res (list frame): the frames this iteration yields followed by `tl_` (the rest)"""
        if not stmts:
            return "iter_loop h o rest"
        s, rest = stmts[0], stmts[1:]
        if isinstance(s, ast.Assign) and len(s.targets) == 1 and isinstance(s.targets[0], ast.Name):
            name = s.targets[0].id
            if name in ("h", "o", "rg", "rest", "deqb", "neqb", "rows", "nrows"):
                _fail(s, "local name clashes with the generated text")
            try:
                ev = self.index_expr(s.value)
                self.kind[name] = "index"
            except TranslatorError:
                ev = self.frame_expr(s.value)
                self.kind[name] = "frame"
            return "bind %s (fun %s =>\n%s)" % (ev, name, self.body(rest))
        if isinstance(s, ast.If) and not s.orelse and len(s.body) == 1 and isinstance(s.body[0], ast.Expr) \
                and isinstance(s.body[0].value, ast.Yield) and isinstance(s.body[0].value.value, ast.Name) \
                and self.kind.get(s.body[0].value.value.id) == "frame":
            return "bind (%s) (fun tl_ => Ok (if %s then %s :: tl_ else tl_))" % (self.body(rest), self.bool_expr(s.test), s.body[0].value.value.id)
        if isinstance(s, ast.Expr) and isinstance(s.value, ast.Yield) and isinstance(s.value.value, ast.Name) \
                and self.kind.get(s.value.value.id) == "frame":
            return "bind (%s) (fun tl_ => Ok (%s :: tl_))" % (self.body(rest), s.value.value.id)
        _fail(s, "unsupported statement in iter_row_groups")


def translate_iter(tree, src_lines, path):
    fn = find_method(tree, "ParquetFile", "iter_row_groups")
    body = _strip_doc(fn.body)
    if len(body) != 2:
        _fail(fn, "iter_row_groups is not `rgs = ...; for rg in rgs: ...`")
    a, loop = body
    ok = (isinstance(a, ast.Assign) and isinstance(a.targets[0], ast.Name) and a.targets[0].id == "rgs" and isinstance(a.value, ast.IfExp)
          and isinstance(a.value.test, ast.Name) and a.value.test.id == "filters"
          and isinstance(a.value.orelse, ast.Attribute) and a.value.orelse.attr == "row_groups"
          and isinstance(a.value.orelse.value, ast.Name) and a.value.orelse.value.id == "self")
    ok = ok and isinstance(loop, ast.For) and not loop.orelse and isinstance(loop.target, ast.Name) \
        and isinstance(loop.iter, ast.Name) and loop.iter.id == "rgs"
    if not ok:
        _fail(fn, "iter_row_groups is not `rgs = ... if filters else self.row_groups; for rg in rgs: ...`")
    tr = IterTr(loop.target.id)
    code = tr.body(loop.body)
    src = "\n".join(src_lines[fn.lineno - 1:fn.end_lineno])
    out = [HEADER % (path, "ParquetFile.iter_row_groups (default path: no filters)", hashlib.sha256(src.encode()).hexdigest()[:16],
                     "\n".join("   " + l for l in src_lines[a.lineno - 1:loop.end_lineno]).replace("(*", "( *").replace("*)", "* )"))]
    out.append("From Pq Require Import Dataset.Read.\nClose Scope Z_scope.\n")
    out.append("Section GenIter.\nVariables D R Name : Type.\nVariable deqb : D -> D -> bool.\nVariable neqb : Name -> Name -> bool.\n"
               "Variable rows : D -> list R.\nVariable nrows : D -> nat.\n")
    out.append("(* one generator step per row group of the handle; the result lists the frames yielded *)")
    out.append("Fixpoint iter_loop (h : handle D Name) (o : ropts Name) (rgs : list D) {struct rgs} : res (list (frame R Name)) :=")
    out.append("  match rgs with\n  | [] => Ok []\n  | rg :: rest =>")
    out.append(textwrap.indent(code, "    "))
    out.append("  end.\n")
    out.append("Definition gen_iter (h : handle D Name) (o : ropts Name) : res (list (frame R Name)) := iter_loop h o (h_rgs h).")
    out.append("End GenIter.")
    return "\n".join(out) + "\n"


def run(repo, gen_dir):
    """-> dict(status per unit); writes GenHead.v / GenToPandas.v into gen_dir"""
    path = os.path.join(repo, "fastparquet", "api.py")
    src = open(path).read()
    tree = ast.parse(src)
    lines = src.split("\n")
    res = {}
    for name, fn in (("GenHead", translate_head), ("GenToPandas", translate_to_pandas), ("GenIter", translate_iter)):
        out = os.path.join(gen_dir, name + ".v")
        if os.path.exists(out):
            os.unlink(out)
        try:
            txt = fn(tree, lines, "fastparquet/api.py")
            open(out, "w").write(txt)
            res[name] = {"status": "translated", "file": out}
        except TranslatorError as e:
            res[name] = {"status": "translator_fallback", "reason": str(e)}
    return res


if __name__ == "__main__":
    import sys
    r = run(sys.argv[1], sys.argv[2])
    print(r)
