"""handle2coq - regenerate the HANDLE INVENTORY of fastparquet.api.ParquetFile (Python ast -> Gallina).

What is extracted from fastparquet/api.py, class ParquetFile (and, for the failed variants of the appends, from
fastparquet/writer.py write_simple / write_multi):

 (i)   the attributes: context attributes (assigned only in __init__), memoised attributes (everything assigned
       outside __init__: lazily filled ones - `if self._x is None: self._x = ...`, `getattr(self, '_x', None)`,
       class-level `_x = None` defaults, `@cached_property` - and the eager ones _set_attrs refills), memo fields
       cached ON the thrift metadata object (`self.fmd["name"] = ...`);
 (ii)  the read graph: for every attribute / property / method the names its value is computed from (expression
       reads + flow-insensitive closure over locals + control dependence, `is None` memo guards excepted), down to the
       ground components fmd.<field> / ctx.<attr>;
 (iii) for every derivation (__getitem__, pickle / copy / deepcopy through __getstate__/__setstate__) and every
       mutator (methods that write fmd: directly, through a struct reached from it, or by handing it to
       writer.write_simple / write_multi), split into phases at each `self._set_attrs()`: the ground components
       written and the policy (Keep / Reset / Refill) for every attribute; the FAILED variant of an append = what
       write_simple / write_multi have already written into fmd when the loop over the data raises.

Fail closed: any construct outside the recognised fragment raises TranslatorError -> the check records
`translator_fallback` and relies on the hand-pinned inventory + the program correspondence only.

Declared (trusted, each checked dynamically by harness/handleprog.py on every run):
  * thrift facts: `obj.attr` on a ThriftObject builds a fresh wrapper list, `obj[int]` is the stored list itself;
    dynamic (string-keyed) fields survive copy.copy / copy.deepcopy of the object and are dropped by pickling;
  * callee table EXTERNAL: which fmd fields writer.write_simple / write_multi assign on success;
  * in-place updates of `file_path` inside row-group structs are shared by every wrapper (not a staleness source);
  * SPEC (hand-written, from the property texts): a derived handle inherits `origin` (the row groups its column
    dtypes were derived from - carried as _base_dtype), pandas_nulls, fn, open and every fmd field except
    row_groups / num_rows.
"""
import ast
import json
import os


class TranslatorError(Exception):
    pass


FMD_FIELDS = {1: "version", 2: "schema", 3: "num_rows", 4: "row_groups", 5: "key_value_metadata", 6: "created_by"}
FMD_NAMES = set(FMD_FIELDS.values()) | {"column_orders", "encryption_algorithm", "footer_signing_key_metadata"}
# functions that receive fmd and what they assign in it on success; anything else receiving fmd -> fail closed
EXTERNAL = {"write_simple": ["row_groups", "num_rows"], "write_multi": ["row_groups", "num_rows"],
            "write_common_metadata": [], "row_groups_map": [], "deepcopy": [], "copy": [], "len": [], "sorted": [],
            "enumerate": [], "list": [], "bool": [], "sum": []}
SHARED_INPLACE = {"file_path"}
INHERITED = {"_base_dtype": ("fmd.row_groups", "origin")}
PRESERVED_CTX = ["pandas_nulls", "fn", "open", "_given_dtypes"]
PRESERVED_FMD = ["schema", "key_value_metadata", "created_by", "version"]
PLUMBING = {"__init__", "__getstate__", "__setstate__", "_parse_header", "__getitem__", "__copy__", "__deepcopy__"}
LIST_MUTATORS = {"append", "extend", "insert", "remove", "pop", "sort", "clear", "reverse"}
THRIFT_DYNAMIC_CARRY = {"__getitem__": "Keep", "pickle": "Reset", "copy": "Keep", "deepcopy": "Keep"}


def _const(n):
    return n.value if isinstance(n, ast.Constant) else None


class FnInfo:
    def __init__(self, name):
        self.name = name
        self.local_defs = {}        # local -> set(reads)
        self.local_raw = {}         # local -> 'fmdraw' when assigned from fmd[<int>] (the stored list itself)
        self.assigns = []           # dict(attr, reads, none, guards, order)
        self.fmd_writes = []        # (component, order, guarded_none_norm)
        self.calls = []             # (method, order)  self.m(...)
        self.external = []          # (funcname, order)
        self.reads = set()
        self.memo_guards = set()    # attrs tested with `is None` / hasattr / getattr(.., None)
        self.state_dicts = []       # (kind, mapping or 'ALL', overrides) handed to __setstate__ / returned by __getstate__
        self.copy_alias_writes = []  # fmd fields assigned on a copy.copy(self.fmd) alias


class Analyzer:
    """one method body"""

    def __init__(self, fn, method_names):
        self.fn = fn
        self.info = FnInfo(fn.name)
        self.methods = method_names
        self.alias = {}             # local name -> 'self' (alias of self.fmd) | 'copy' (copy.copy(self.fmd))
        self.order = 0
        self.ctrl = []              # stack of (reads, guards)
        args = fn.args
        self.params = {a.arg for a in args.args + args.kwonlyargs} - {"self"}
        for st in fn.body:
            self.stmt(st)
        self.resolve()

    # ---- expressions -------------------------------------------------------------------------
    def chain(self, node):
        """Attribute/Subscript chain -> (root Name id or None, [steps]) with steps ('a', name) | ('i', const) | ('x', None)"""
        steps = []
        while True:
            if isinstance(node, ast.Attribute):
                steps.append(("a", node.attr))
                node = node.value
            elif isinstance(node, ast.Subscript):
                c = _const(node.slice)
                steps.append(("i", c) if isinstance(c, (int, str)) else ("x", node.slice))
                node = node.value
            else:
                break
        steps.reverse()
        return (node.id if isinstance(node, ast.Name) else None), steps, node

    def fmd_component(self, steps):
        """steps after the fmd object -> component name"""
        if not steps:
            return "fmd.*"
        k, v = steps[0]
        if k == "a" and v in FMD_NAMES:
            return "fmd." + v
        if k == "a" and v in ("contents", "to_bytes", "copy", "get"):
            return "fmd.*"
        if k == "i" and isinstance(v, int) and v in FMD_FIELDS:
            return "fmd." + FMD_FIELDS[v]
        if k == "i" and isinstance(v, str):
            return "fmd[%s]" % v
        raise TranslatorError("%s: unrecognised access to the metadata object: %r" % (self.fn.name, steps[:2]))

    def reads(self, node):
        """names an expression reads"""
        out = set()
        if node is None:
            return out
        if isinstance(node, (ast.Attribute, ast.Subscript)):
            root, steps, base = self.chain(node)
            for k, v in steps:
                if k == "x":
                    out |= self.reads(v)
            if root == "self" and steps:
                k, v = steps[0]
                if k == "a" and v == "fmd":
                    out.add(self.fmd_component(steps[1:]))
                elif k == "a" and v == "__dict__":
                    out.add("*")
                elif k == "a":
                    out.add(v)
                else:
                    out.add("__getitem__")       # self[...]: a derived handle
                return out
            if root is not None and self.alias.get(root):
                out.add(self.fmd_component(steps))
                return out
            if root is not None:
                out.add("local:" + root)
                return out
            return out | self.reads(base)
        if isinstance(node, ast.Name):
            if node.id == "self":
                out.add("*")
            elif self.alias.get(node.id):
                out.add("fmd.*")
            else:
                out.add("local:" + node.id)
            return out
        if isinstance(node, ast.Call):
            f = node.func
            fname = f.id if isinstance(f, ast.Name) else (f.attr if isinstance(f, ast.Attribute) else None)
            if fname in ("getattr", "hasattr") and node.args and isinstance(node.args[0], ast.Name) and node.args[0].id == "self":
                a = _const(node.args[1])
                if not isinstance(a, str):
                    raise TranslatorError("%s: getattr(self, <dynamic name>)" % self.fn.name)
                out.add(a)
                if fname == "hasattr" or (len(node.args) > 2 and _const(node.args[2]) is None):
                    self.info.memo_guards.add(a)
                return out
            if fname in ("setattr", "delattr") and node.args and isinstance(node.args[0], ast.Name) and node.args[0].id == "self":
                raise TranslatorError("%s: %s(self, ...)" % (self.fn.name, fname))
            # self.m(...)
            if isinstance(f, ast.Attribute) and isinstance(f.value, ast.Name) and f.value.id == "self":
                out.add(f.attr)
                self.info.calls.append((f.attr, self.order))
            else:
                out |= self.reads(f)
            passes_fmd = False
            for a in list(node.args) + [k.value for k in node.keywords]:
                if isinstance(a, ast.Starred):
                    a = a.value
                out |= self.reads(a)
                root, steps, _ = self.chain(a) if isinstance(a, (ast.Attribute, ast.Subscript)) else (None, [], None)
                if (isinstance(a, ast.Name) and self.alias.get(a.id) == "self") or (root == "self" and steps == [("a", "fmd")]):
                    passes_fmd = True
            if passes_fmd:
                if fname not in EXTERNAL and not (isinstance(f, ast.Attribute) and isinstance(f.value, ast.Name) and f.value.id == "copy"):
                    raise TranslatorError("%s: the metadata object is handed to %s(), which is not in the callee table" % (self.fn.name, fname))
                self.info.external.append((fname, self.order))
            return out
        if isinstance(node, (ast.ListComp, ast.SetComp, ast.GeneratorExp, ast.DictComp)):
            for g in node.generators:
                r = self.reads(g.iter)
                for t in ast.walk(g.target):
                    if isinstance(t, ast.Name):
                        self.info.local_defs.setdefault(t.id, set()).update(r)
                out |= r
                for c in g.ifs:
                    out |= self.reads(c)
            if isinstance(node, ast.DictComp):
                out |= self.reads(node.key) | self.reads(node.value)
            else:
                out |= self.reads(node.elt)
            return out
        if isinstance(node, ast.Lambda):
            return self.reads(node.body)
        for ch in ast.iter_child_nodes(node):
            if isinstance(ch, (ast.expr,)):
                out |= self.reads(ch)
            elif isinstance(ch, ast.keyword):
                out |= self.reads(ch.value)
            elif isinstance(ch, ast.comprehension):
                pass
        return out

    def test_info(self, test):
        """(reads that are value dependencies, memo guards [(attr, 'none'|'notnone')])"""
        guards = []
        skip = []

        def visit(t):
            if isinstance(t, ast.BoolOp):
                for v in t.values:
                    visit(v)
                return
            if isinstance(t, ast.UnaryOp) and isinstance(t.op, ast.Not):
                inner = t.operand
                if isinstance(inner, ast.Call) and getattr(inner.func, "id", None) == "hasattr":
                    a = _const(inner.args[1])
                    guards.append((a, "none"))
                    skip.append(t)
                    self.info.memo_guards.add(a)
                    return
                visit(inner)
                return
            if isinstance(t, ast.Compare) and len(t.ops) == 1 and isinstance(t.ops[0], (ast.Is, ast.IsNot)) and _const(t.comparators[0]) is None \
                    and isinstance(t.comparators[0], ast.Constant):
                root, steps, _ = self.chain(t.left) if isinstance(t.left, (ast.Attribute, ast.Subscript)) else (None, [], None)
                a = None
                if root == "self" and len(steps) == 1 and steps[0][0] == "a":
                    a = steps[0][1]
                elif root == "self" and len(steps) == 2 and steps[0] == ("a", "fmd"):
                    guards.append((self.fmd_component(steps[1:]), "none" if isinstance(t.ops[0], ast.Is) else "notnone"))
                elif isinstance(t.left, ast.Call) and getattr(t.left.func, "id", None) == "getattr" and isinstance(t.left.args[0], ast.Name) \
                        and t.left.args[0].id == "self":
                    a = _const(t.left.args[1])
                elif isinstance(t.left, ast.Name) and t.left.id in self.memo_locals:
                    a = self.memo_locals[t.left.id]
                if a is not None:
                    guards.append((a, "none" if isinstance(t.ops[0], ast.Is) else "notnone"))
                    self.info.memo_guards.add(a)
                    skip.append(t)
        self.memo_locals = getattr(self, "memo_locals", {})
        visit(test)
        r = set()

        def collect(t):
            if t in skip:
                return
            if isinstance(t, ast.BoolOp):
                for v in t.values:
                    collect(v)
            else:
                r.update(self.reads(t))
        collect(test)
        return r, guards

    # ---- statements --------------------------------------------------------------------------
    def ctrl_reads(self):
        out = set()
        for r, _ in self.ctrl:
            out |= r
        return out

    def ctrl_guards(self):
        out = []
        for _, g in self.ctrl:
            out += g
        return out

    def bind(self, target, r):
        """assignment of a value with reads r to target"""
        if isinstance(target, (ast.Tuple, ast.List)):
            for t in target.elts:
                self.bind(t, r)
            return
        if isinstance(target, ast.Starred):
            return self.bind(target.value, r)
        if isinstance(target, ast.Name):
            self.info.local_defs.setdefault(target.id, set()).update(r | self.ctrl_reads())
            return
        root, steps, base = self.chain(target)
        if root == "self":
            k, v = steps[0]
            if k != "a":
                raise TranslatorError("%s: self[...] = ..." % self.fn.name)
            if v == "fmd":
                if len(steps) == 1:
                    self.info.assigns.append({"attr": "fmd", "reads": set(r), "none": False, "guards": self.ctrl_guards(), "order": self.order})
                    return
                self.fmd_write(steps[1:], on="self")
                return
            if v == "__dict__":
                raise TranslatorError("%s: assignment into self.__dict__" % self.fn.name)
            if len(steps) == 1:
                # (locals are closed over what has been assigned to them SO FAR, in program order)
                self.info.assigns.append({"attr": v, "reads": self.close_now(set(r) | self.ctrl_reads()), "none": self._none,
                                          "guards": self.ctrl_guards(), "order": self.order})
                return
            # self.attr.sub = ... / self.attr[...] = ...   (update inside an attribute's value): a dependency of that attribute
            self.info.assigns.append({"attr": v, "reads": set(r) | self.ctrl_reads() | {v}, "none": False, "guards": self.ctrl_guards() + [("?", "other")],
                                      "order": self.order})
            return
        if root is not None and self.alias.get(root):
            self.fmd_write(steps, on=self.alias[root])
            return
        if root is not None:
            # store into a local object: local.attr = / local[k] =
            self.info.local_defs.setdefault(root, set()).update(r | self.ctrl_reads())
            if steps and steps[-1][0] == "a":
                self.deep_store(root, steps[-1][1])
            else:
                self.deep_store(root, "[item]")
            return
        raise TranslatorError("%s: unrecognised assignment target" % self.fn.name)

    def close_now(self, rs):
        defs = self.info.local_defs
        seen, out, todo = set(), set(), list(rs)
        while todo:
            x = todo.pop()
            if x.startswith("local:"):
                n = x[6:]
                if n in seen:
                    continue
                seen.add(n)
                todo.extend(defs.get(n, ()))
            else:
                out.add(x)
        return out

    PASS_FUNCS = {"enumerate", "list", "sorted", "zip", "reversed", "iter", "tuple"}
    PASS_METHODS = {"items", "values", "keys", "get", "setdefault", "pop", "copy"}

    def taint(self, node):
        """fmd components whose stored structs the value of `node` may alias (not: depend on)"""
        t = self.__dict__.setdefault("_taint", {})
        if node is None:
            return set()
        if isinstance(node, (ast.Attribute, ast.Subscript)):
            root, steps, base = self.chain(node)
            if root == "self" and steps and steps[0] == ("a", "fmd"):
                c = self.fmd_component(steps[1:])
                return {c} if c != "fmd.*" and not c.startswith("fmd[") else set()
            if root == "self" and steps and steps[0] == ("a", "row_groups"):
                return {"fmd.row_groups"}
            if root is not None and self.alias.get(root) == "self":
                c = self.fmd_component(steps)
                return {c} if c != "fmd.*" and not c.startswith("fmd[") else set()
            if root is not None:
                return set(t.get(root, ()))
            return self.taint(base)
        if isinstance(node, ast.Name):
            return set(t.get(node.id, ()))
        if isinstance(node, ast.Call):
            f = node.func
            args = list(node.args) + [k.value for k in node.keywords]
            if isinstance(f, ast.Name) and f.id in self.PASS_FUNCS:
                return set().union(*[self.taint(a) for a in args]) if args else set()
            if isinstance(f, ast.Attribute) and f.attr in self.PASS_METHODS:
                return self.taint(f.value).union(*[self.taint(a) for a in args])
            return set()
        if isinstance(node, (ast.ListComp, ast.SetComp, ast.GeneratorExp, ast.DictComp)):
            for g in node.generators:
                ti = self.taint(g.iter)
                for x in ast.walk(g.target):
                    if isinstance(x, ast.Name):
                        t.setdefault(x.id, set()).update(ti)
            if isinstance(node, ast.DictComp):
                return self.taint(node.key) | self.taint(node.value)
            return self.taint(node.elt)
        if isinstance(node, (ast.Tuple, ast.List, ast.Set)):
            return set().union(*[self.taint(e) for e in node.elts]) if node.elts else set()
        if isinstance(node, ast.Dict):
            return set().union(*[self.taint(e) for e in node.values if e is not None]) if node.values else set()
        if isinstance(node, ast.IfExp):
            return self.taint(node.body) | self.taint(node.orelse)
        if isinstance(node, ast.BoolOp):
            return set().union(*[self.taint(e) for e in node.values])
        if isinstance(node, ast.Starred):
            return self.taint(node.value)
        return set()

    def taint_bind(self, target, tv):
        t = self.__dict__.setdefault("_taint", {})
        for x in ast.walk(target):
            if isinstance(x, ast.Name) and isinstance(x.ctx, ast.Store):
                t.setdefault(x.id, set()).update(tv)

    def thrift_locals(self):
        return set()

    def deep_store(self, local, attr):
        self.info.deep = getattr(self.info, "deep", [])
        hit = sorted(self.__dict__.setdefault("_taint", {}).get(local, ()))
        self.info.deep.append((local, attr, self.order, hit))

    def fmd_write(self, steps, on):
        comp = self.fmd_component(steps[:1])
        if on == "copy":
            self.info.copy_alias_writes.append(comp)
            return
        norm = any(g == "none" for _, g in self.ctrl_guards()) and self._emptylist
        self.info.fmd_writes.append((comp, self.order, bool(norm)))

    def stmt(self, st):
        self.order += 1
        self._none = False
        self._emptylist = False
        if isinstance(st, ast.Assign):
            v = st.value
            self._none = isinstance(v, ast.Constant) and v.value is None
            self._emptylist = isinstance(v, ast.List) and not v.elts
            r = self.reads(v)
            # aliases of the metadata object
            if len(st.targets) == 1 and isinstance(st.targets[0], ast.Name):
                t = st.targets[0].id
                root, steps, _ = self.chain(v) if isinstance(v, (ast.Attribute, ast.Subscript)) else (None, [], None)
                if root == "self" and steps == [("a", "fmd")]:
                    self.alias[t] = "self"
                    return
                if isinstance(v, ast.Call) and isinstance(v.func, ast.Attribute) and v.func.attr == "copy" and len(v.args) == 1:
                    r2, s2, _ = self.chain(v.args[0]) if isinstance(v.args[0], (ast.Attribute, ast.Subscript)) else (None, [], None)
                    if r2 == "self" and s2 == [("a", "fmd")]:
                        self.alias[t] = "copy"
                        return
                # x = self.fmd["name"]  (memo cached on the metadata object, tested through the local)
                if root == "self" and len(steps) == 2 and steps[0] == ("a", "fmd") and steps[1][0] == "i" and isinstance(steps[1][1], str):
                    self.memo_locals = getattr(self, "memo_locals", {})
                    self.memo_locals[t] = "fmd[%s]" % steps[1][1]
                if (root == "self" and len(steps) == 2 and steps[0] == ("a", "fmd") and steps[1][0] == "i" and isinstance(steps[1][1], int)) or \
                        (root is not None and self.alias.get(root) == "self" and len(steps) == 1 and steps[0][0] == "i" and isinstance(steps[0][1], int)):
                    self.info.local_raw[t] = "fmdraw"
            tv = self.taint(v)
            for t in st.targets:
                self.bind(t, r)
                if isinstance(t, (ast.Name, ast.Tuple, ast.List)):
                    self.taint_bind(t, tv)
        elif isinstance(st, ast.AugAssign):
            r = self.reads(st.value) | self.reads(st.target)
            self.bind(st.target, r)
        elif isinstance(st, ast.AnnAssign):
            if st.value is not None:
                self.bind(st.target, self.reads(st.value))
        elif isinstance(st, ast.Expr):
            v = st.value
            self.info.reads |= self.reads(v)
            # list mutation through a method call: x.append(...) on the stored list of the metadata object
            if isinstance(v, ast.Call) and isinstance(v.func, ast.Attribute) and v.func.attr in LIST_MUTATORS:
                root, steps, _ = self.chain(v.func.value) if isinstance(v.func.value, (ast.Attribute, ast.Subscript)) else \
                    ((v.func.value.id if isinstance(v.func.value, ast.Name) else None), [], None)
                if root is not None and self.info.local_raw.get(root) == "fmdraw" and not steps:
                    self.info.fmd_writes.append(("fmd.row_groups", self.order, False))
                elif root == "self" and steps and steps[0] == ("a", "fmd") and len(steps) == 2 and steps[1][0] == "i":
                    self.info.fmd_writes.append((self.fmd_component(steps[1:]), self.order, False))
                elif root is not None and not steps and root not in self.alias:
                    self.info.local_defs.setdefault(root, set()).update(self.reads(v))
            if isinstance(v, ast.Call) and isinstance(v.func, ast.Attribute) and v.func.attr in (LIST_MUTATORS | {"setdefault", "update", "add"}):
                b = v.func.value
                extra = set()
                while not isinstance(b, ast.Name):
                    if isinstance(b, (ast.Attribute, ast.Subscript)):
                        b = b.value
                    elif isinstance(b, ast.Call) and isinstance(b.func, ast.Attribute):
                        for a in b.args:
                            extra |= self.taint(a)
                        b = b.func.value
                    else:
                        b = None
                        break
                if b is not None and b.id != "self" and not self.alias.get(b.id):
                    tv = set(extra)
                    for a in v.args:
                        tv |= self.taint(a)
                    self.taint_bind(ast.Name(id=b.id, ctx=ast.Store()), tv)
        elif isinstance(st, ast.Return):
            if st.value is not None:
                self.info.reads |= self.reads(st.value) | self.ctrl_reads()
                self.info.returns = getattr(self.info, "returns", []) + [st.value]
        elif isinstance(st, ast.If):
            r, g = self.test_info(st.test)
            self.info.reads |= r
            self.ctrl.append((r, g))
            for s in st.body:
                self.stmt(s)
            self.ctrl.pop()
            neg = [(a, {"none": "notnone", "notnone": "none"}.get(k, k)) for a, k in g] if len(g) == 1 else [("?", "other")] * bool(g)
            self.ctrl.append((r, neg))
            for s in st.orelse:
                self.stmt(s)
            self.ctrl.pop()
        elif isinstance(st, (ast.For, ast.AsyncFor)):
            r = self.reads(st.iter)
            self.info.reads |= r
            self.bind(st.target, r)
            self.taint_bind(st.target, self.taint(st.iter))
            self.ctrl.append((r, [("?", "other")]))
            for s in st.body + st.orelse:
                self.stmt(s)
            self.ctrl.pop()
        elif isinstance(st, ast.While):
            r, _ = self.test_info(st.test)
            self.info.reads |= r
            self.ctrl.append((r, [("?", "other")]))
            for s in st.body + st.orelse:
                self.stmt(s)
            self.ctrl.pop()
        elif isinstance(st, (ast.With, ast.AsyncWith)):
            for it in st.items:
                r = self.reads(it.context_expr)
                self.info.reads |= r
                if it.optional_vars is not None:
                    self.bind(it.optional_vars, r)
            for s in st.body:
                self.stmt(s)
        elif isinstance(st, ast.Try):
            for s in st.body:
                self.stmt(s)
            self.ctrl.append((set(), [("?", "other")]))
            for h in st.handlers:
                for s in h.body:
                    self.stmt(s)
            self.ctrl.pop()
            for s in st.orelse + st.finalbody:
                self.stmt(s)
        elif isinstance(st, ast.Raise):
            self.info.reads |= self.reads(st.exc) if st.exc is not None else set()
        elif isinstance(st, (ast.Import, ast.ImportFrom, ast.Pass, ast.Break, ast.Continue, ast.Global, ast.Nonlocal)):
            pass
        elif isinstance(st, ast.Assert):
            self.info.reads |= self.reads(st.test)
        elif isinstance(st, ast.Delete):
            for t in st.targets:
                root, steps, _ = self.chain(t) if isinstance(t, (ast.Attribute, ast.Subscript)) else (None, [], None)
                if root == "self":
                    raise TranslatorError("%s: del self.%s" % (self.fn.name, steps[:1]))
        elif isinstance(st, (ast.FunctionDef, ast.AsyncFunctionDef, ast.ClassDef)):
            raise TranslatorError("%s: nested definition %s" % (self.fn.name, st.name))
        else:
            raise TranslatorError("%s: statement %s" % (self.fn.name, type(st).__name__))

    def resolve(self):
        """close the reads over the locals (flow-insensitive fixpoint)"""
        defs = self.info.local_defs

        def close(rs):
            seen, out, todo = set(), set(), list(rs)
            while todo:
                x = todo.pop()
                if x.startswith("local:"):
                    n = x[6:]
                    if n in seen:
                        continue
                    seen.add(n)
                    todo.extend(defs.get(n, ()))
                else:
                    out.add(x)
            return out
        self.info.local_closed = {n: close(r) for n, r in defs.items()}
        self.info.reads = close(self.info.reads)
        for a in self.info.assigns:
            a["reads"] = close(a["reads"])
            self.info.reads |= a["reads"]
        for n in defs:
            self.info.reads |= self.info.local_closed[n]
        # stores through locals that reach into the metadata object
        for local, attr, order, hit in getattr(self.info, "deep", []):
            for c in hit:
                if attr in SHARED_INPLACE:
                    self.info.fmd_writes.append((c + "." + attr, order, False))
                elif attr == "[item]" and self.fn.name in PLUMBING:
                    self.info.fmd_writes.append((c + ".file_path", order, False))     # bytes -> str decoding of the paths
                else:
                    self.info.fmd_writes.append((c, order, False))


# -----------------------------------------------------------------------------------------------

def _class(tree, name):
    for n in tree.body:
        if isinstance(n, ast.ClassDef) and n.name == name:
            return n
    raise TranslatorError("class %s not found" % name)


def _state_dict(an, node):
    """Dict literal / dict(self.__dict__, k=v) -> (mapping key -> ('self', attr) | ('none',) | ('other', reads), all_flag)"""
    if isinstance(node, ast.Name):
        # a local holding the dict: find its single Dict assignment
        for st in ast.walk(an.fn):
            if isinstance(st, ast.Assign) and len(st.targets) == 1 and isinstance(st.targets[0], ast.Name) and st.targets[0].id == node.id:
                return _state_dict(an, st.value)
        raise TranslatorError("%s: state is not a dict display" % an.fn.name)
    mapping, allf = {}, False
    items = []
    if isinstance(node, ast.Dict):
        for k, v in zip(node.keys, node.values):
            if k is None:
                root, steps, _ = an.chain(v) if isinstance(v, ast.Attribute) else (None, [], None)
                if root == "self" and steps == [("a", "__dict__")]:
                    allf = True
                    continue
                raise TranslatorError("%s: ** in the state dict" % an.fn.name)
            if not isinstance(_const(k), str):
                raise TranslatorError("%s: non-literal key in the state dict" % an.fn.name)
            items.append((_const(k), v))
    elif isinstance(node, ast.Call) and getattr(node.func, "id", None) == "dict":
        for a in node.args:
            root, steps, _ = an.chain(a) if isinstance(a, ast.Attribute) else (None, [], None)
            if root == "self" and steps == [("a", "__dict__")]:
                allf = True
            else:
                raise TranslatorError("%s: dict(<unknown>) as state" % an.fn.name)
        for k in node.keywords:
            if k.arg is None:
                raise TranslatorError("%s: ** in the state dict" % an.fn.name)
            items.append((k.arg, k.value))
    else:
        raise TranslatorError("%s: state is not a dict display" % an.fn.name)
    for key, v in items:
        root, steps, _ = an.chain(v) if isinstance(v, (ast.Attribute, ast.Subscript)) else (None, [], None)
        if root == "self" and len(steps) == 1 and steps[0][0] == "a":
            mapping[key] = ("self", steps[0][1])
        elif isinstance(v, ast.Constant) and v.value is None:
            mapping[key] = ("none",)
        elif isinstance(v, ast.Call) and getattr(v.func, "id", None) == "getattr" and len(v.args) == 3 and isinstance(v.args[0], ast.Name) \
                and v.args[0].id == "self" and isinstance(_const(v.args[1]), str) and _const(v.args[2]) is None:
            mapping[key] = ("self", _const(v.args[1]))          # getattr(self, "x", None): the handle's own x (None when never set)
        elif isinstance(v, ast.Call) and isinstance(v.func, ast.Attribute) and v.func.attr == "copy" and len(v.args) == 1 \
                and isinstance(v.args[0], ast.Attribute) and isinstance(v.args[0].value, ast.Name) and v.args[0].value.id == "self" \
                and v.args[0].attr == "fmd":
            mapping[key] = ("fmd", "copy")                      # copy.copy(self.fmd)
        elif isinstance(v, ast.Name) and an.alias.get(v.id):
            mapping[key] = ("fmd", an.alias[v.id])
        else:
            mapping[key] = ("other", sorted(an.reads(v)))
    return mapping, allf


def analyse(repo):
    src = open(os.path.join(repo, "fastparquet", "api.py")).read()
    tree = ast.parse(src)
    cls = _class(tree, "ParquetFile")
    methods, class_defaults, cached = {}, {}, []
    for n in cls.body:
        if isinstance(n, ast.FunctionDef):
            methods[n.name] = n
            for d in n.decorator_list:
                dn = d.attr if isinstance(d, ast.Attribute) else (d.id if isinstance(d, ast.Name) else (getattr(d.func, "attr", getattr(d.func, "id", None)) if isinstance(d, ast.Call) else None))
                if dn in ("cached_property", "lru_cache", "cache"):
                    cached.append(n.name)
                elif dn not in ("property", "staticmethod", "classmethod") and not (isinstance(d, ast.Attribute) and d.attr in ("setter",)):
                    raise TranslatorError("decorator %r on %s" % (dn, n.name))
        elif isinstance(n, ast.Assign):
            for t in n.targets:
                if isinstance(t, ast.Name):
                    class_defaults[t.id] = n.value
    for bad in ("__reduce__", "__reduce_ex__", "__getattr__", "__getattribute__", "__setattr__", "__slots__"):
        if bad in methods or bad in class_defaults:
            raise TranslatorError("ParquetFile defines %s" % bad)
    for req in ("__init__", "_set_attrs", "__getitem__", "__getstate__", "__setstate__"):
        if req not in methods:
            raise TranslatorError("ParquetFile.%s not found" % req)
    infos = {}
    for name, fn in methods.items():
        infos[name] = Analyzer(fn, set(methods))
    I = {k: a.info for k, a in infos.items()}

    # ---- attributes
    assigned_in = {}
    for name, inf in I.items():
        for a in inf.assigns:
            assigned_in.setdefault(a["attr"], set()).add(name)
    attrs = set(assigned_in) - {"fmd"}
    ctx = sorted(a for a in attrs if assigned_in[a] <= {"__init__"} and a not in class_defaults)
    memos = sorted((attrs - set(ctx)) | {d for d in class_defaults if isinstance(class_defaults[d], ast.Constant) and class_defaults[d].value is None and d.startswith("_") and not d.startswith("__")} | set(cached))
    fmd_memos = sorted({c for inf in I.values() for c, _, _ in inf.fmd_writes if c.startswith("fmd[")})
    lazy = sorted(set(m for m in memos if any(m in inf.memo_guards for inf in I.values())) | set(cached))

    # ---- read graph
    ctx_names = set(ctx)
    edges = {}
    for name, inf in I.items():
        if name in ("__init__", "__setstate__", "__getstate__", "__getitem__"):
            continue
        edges.setdefault(name, set()).update(inf.reads)
    for name, inf in I.items():
        for a in inf.assigns:
            if a["attr"] != "fmd":
                # (an assignment of None / of constructor context only is a RESET of the attribute, not its computation)
                is_reset = a["none"] or (name != "__init__" and a["reads"] and a["reads"] <= set(ctx_names))
                edges.setdefault(a["attr"], set()).update(set() if is_reset else a["reads"])
        for c, _, _ in inf.fmd_writes:
            if c.startswith("fmd["):
                edges.setdefault(c, set()).update(inf.reads - {c})
    for c in cached:
        edges.setdefault(c, set()).update(I[c].reads)
    ground = ["fmd." + f for f in sorted(FMD_FIELDS.values())] + ["ctx." + c for c in ctx] + ["origin"]
    allg = [g for g in ground if g != "origin"]

    def norm(rs, owner):
        out = set()
        for r in rs:
            if r == "*" or r == "fmd.*":
                out.update(allg if r == "*" else [g for g in allg if g.startswith("fmd.")])
                if r == "*":
                    out.update(memos)
            elif r in ctx:
                out.add("ctx." + r)
            elif r.startswith("fmd.") and r.count(".") > 1:
                out.add(".".join(r.split(".")[:2]))
            else:
                out.add(r)
        out.discard(owner)
        if owner in INHERITED:
            frm, to = INHERITED[owner]
            # the attribute is computed from the row groups AT THE TIME it is (re)derived = the ghost component `origin`
            if frm in out or "row_groups" in out:
                out.discard(frm)
                out.discard("row_groups")
                out.add(to)
        return sorted(out)
    reads_graph = {k: norm(v, k) for k, v in sorted(edges.items())}

    # ---- the effect of _set_attrs (with the methods it calls as statements), as an ordered list of attribute updates
    def inline_updates(name, depth=0, seen=()):
        if depth > 4 or name in seen or name not in I:
            return []
        inf = I[name]
        ev = [(a["order"], "assign", a) for a in inf.assigns if a["attr"] != "fmd"] + \
             [(o, "call", m) for m, o in inf.calls if m in methods and m != name]
        ev.sort(key=lambda e: e[0])
        out = []
        for _, kind, x in ev:
            if kind == "assign":
                out.append(x)
            else:
                out += inline_updates(x, depth + 1, seen + (name,))
        return out
    set_attrs_updates = inline_updates("_set_attrs")
    if I["_set_attrs"].fmd_writes:
        raise TranslatorError("_set_attrs writes the metadata object")

    def apply_updates(state, updates):
        for a in updates:
            guards = [g for g in a["guards"]]
            ok = True
            for attr, kind in guards:
                if kind == "none" and state.get(attr, "Keep") == "Reset":
                    continue
                ok = False
            if not ok:
                continue
            state[a["attr"]] = "Reset" if a["none"] else "Refill"
        return state

    all_attrs = sorted(set(memos) | set(fmd_memos))

    def finish(state, default):
        return {a: state.get(a, default) for a in all_attrs}

    # ---- derivations
    derivs = []

    def derivation(opname, an, mapping, allf, kind, copy_writes, post=None):
        state, writes = {}, set(copy_writes)
        default = "Keep" if allf else "Reset"
        for key, v in mapping.items():
            if key == "fmd":
                continue
            if v[0] == "self" and v[1] == key:
                state[key] = "Keep"
            elif v[0] == "none":
                state[key] = "Reset"
            else:
                state[key] = "Reset" if v[0] == "none" else "Refill"
                if v[0] in ("self", "other"):
                    raise TranslatorError("%s: state entry %r is not the handle's own %r" % (opname, key, key))
        for c in PRESERVED_CTX:
            if not allf and not (mapping.get(c, ("?",))[0] == "self"):
                writes.add("ctx." + c)
        for inh, (_, ghost) in INHERITED.items():
            if (state.get(inh, default)) != "Keep":
                writes.add(ghost)
        for fm in fmd_memos:
            state[fm] = THRIFT_DYNAMIC_CARRY[kind]
        if "fmd" not in mapping:
            raise TranslatorError("%s: the state carries no fmd" % opname)
        pre = dict(state)
        # __setstate__: __dict__.update(state) then its statements, then _set_attrs
        ss = I["__setstate__"]
        if ss.fmd_writes and any(not c.endswith(".file_path") for c, _, _ in ss.fmd_writes):
            raise TranslatorError("__setstate__ writes the metadata object: %r" % ss.fmd_writes)
        if not any(m == "_set_attrs" for m, _ in ss.calls):
            raise TranslatorError("__setstate__ does not call _set_attrs")
        st = {a: pre.get(a, default) for a in all_attrs}
        st = apply_updates(st, [a for a in ss.assigns if a["attr"] != "fmd"])
        st = apply_updates(st, set_attrs_updates)
        # attributes put on the NEW handle after __setstate__/_set_attrs (`new_pf._x = self._x`): copied as they are
        for attr, how in (post or []):
            st[attr] = how
            if attr in INHERITED and how != "Keep":
                writes.add(INHERITED[attr][1])
        derivs.append({"name": opname, "writes": sorted(writes), "pols": finish(st, default), "default": default})

    gi = infos["__getitem__"]
    call = None
    for n in ast.walk(methods["__getitem__"]):
        if isinstance(n, ast.Call) and isinstance(n.func, ast.Attribute) and n.func.attr == "__setstate__":
            call = n
    if call is None or not call.args:
        raise TranslatorError("__getitem__: no __setstate__(state) call")
    mapping, allf = _state_dict(gi, call.args[0])
    if mapping.get("fmd") != ("fmd", "copy"):
        raise TranslatorError("__getitem__: the derived handle's fmd is not a copy.copy of the parent's")
    if gi.info.fmd_writes:
        raise TranslatorError("__getitem__ writes the parent's metadata object: %r" % gi.info.fmd_writes)
    # the local that holds the new handle, and what is assigned on it directly
    newvars = set()
    for n in ast.walk(methods["__getitem__"]):
        if isinstance(n, ast.Assign) and len(n.targets) == 1 and isinstance(n.targets[0], ast.Name) and isinstance(n.value, ast.Call):
            fn_ = n.value.func
            if isinstance(fn_, ast.Attribute) and (fn_.attr == "__new__" or (fn_.attr in ("copy", "deepcopy") and n.value.args
                                                                              and isinstance(n.value.args[0], ast.Name) and n.value.args[0].id == "self")):
                newvars.add(n.targets[0].id)
    post = []
    for n in ast.walk(methods["__getitem__"]):
        if isinstance(n, (ast.Assign, ast.AugAssign)):
            for t in (n.targets if isinstance(n, ast.Assign) else [n.target]):
                root, steps, _ = gi.chain(t) if isinstance(t, (ast.Attribute, ast.Subscript)) else (None, [], None)
                if root in newvars and steps:
                    v = n.value
                    r2, s2, _ = gi.chain(v) if isinstance(v, (ast.Attribute, ast.Subscript)) else (None, [], None)
                    if len(steps) == 1 and steps[0][0] == "a" and r2 == "self" and s2 == [("a", steps[0][1])]:
                        post.append((steps[0][1], "Keep"))
                    elif len(steps) == 1 and steps[0][0] == "a" and isinstance(v, ast.Constant) and v.value is None:
                        post.append((steps[0][1], "Reset"))
                    else:
                        raise TranslatorError("__getitem__: unrecognised assignment on the derived handle")
        elif isinstance(n, ast.Call) and isinstance(n.func, ast.Attribute) and n.func.attr in ("update", "setdefault", "__setattr__"):
            root, steps, _ = gi.chain(n.func.value) if isinstance(n.func.value, (ast.Attribute, ast.Subscript)) else (None, [], None)
            if root in newvars:
                raise TranslatorError("__getitem__: the derived handle's __dict__ is updated wholesale")
        elif isinstance(n, ast.Call) and getattr(n.func, "id", None) == "setattr":
            raise TranslatorError("__getitem__: setattr on the derived handle")
    derivation("__getitem__", gi, mapping, allf, "__getitem__", set(gi.info.copy_alias_writes), post)
    gs = infos["__getstate__"]
    rets = getattr(gs.info, "returns", [])
    if len(rets) != 1:
        raise TranslatorError("__getstate__: expected one return")
    mapping, allf = _state_dict(gs, rets[0])
    if mapping.get("fmd") not in (("self", "fmd"), ("fmd", "copy")):
        raise TranslatorError("__getstate__: state['fmd'] is neither self.fmd nor a copy of it")
    shares_fmd = mapping.get("fmd") == ("self", "fmd")
    if any(not nrm for _, _, nrm in gs.info.fmd_writes):
        raise TranslatorError("__getstate__ writes the metadata object: %r" % gs.info.fmd_writes)
    copy_via = copy_protocol(methods)           # how copy.copy / copy.deepcopy derive a handle: {"copy": "getstate"|"getitem", "deepcopy": "getstate"|"pickle"}
    for kind in ("pickle", "copy", "deepcopy"):
        if kind == "copy" and copy_via["copy"] == "getitem":
            # __copy__ = `return self[...]`: the copy is derived exactly like a selection
            g = dict(derivs[0])
            g = {"name": "copy", "writes": list(g["writes"]), "pols": dict(g["pols"]), "default": g["default"]}
            derivs.append(g)
            continue
        if kind == "deepcopy" and copy_via["deepcopy"] == "pickle":
            # __deepcopy__ = __getstate__, the metadata through pickle.loads(pickle.dumps(.)), __setstate__: derived like a pickled handle
            derivation("deepcopy", gs, mapping, allf, "pickle", set())
            continue
        # copy.copy(pf) hands state["fmd"] on as it is: when that is the parent's own object, an edit through either handle
        # later writes the other's metadata behind its back - recorded as the derivation not preserving the fmd fields
        shared = {"fmd." + f_ for f_ in PRESERVED_FMD} | {"fmd.shared_object"} if (kind == "copy" and shares_fmd) else set()
        derivation(kind, gs, mapping, allf, kind, shared)

    # ---- mutators
    def writes_of(name, seen=()):
        """ordered events of a method: ('w', comp) | ('set_attrs',) | ('assign', a) | nested mutator calls inlined"""
        inf = I[name]
        ev = [(o, ("w", c)) for c, o, nrm in inf.fmd_writes if not nrm and not c.startswith("fmd[")]
        ev += [(o, ("memo_w", c, name)) for c, o, nrm in inf.fmd_writes if c.startswith("fmd[")]
        ev += [(a["order"], ("assign", a)) for a in inf.assigns if a["attr"] != "fmd"]
        for f, o in inf.external:
            if f in EXTERNAL:
                ev += [(o, ("w", "fmd." + x)) for x in EXTERNAL[f]]
                if EXTERNAL[f]:
                    ev.append((o, ("external", f)))
        for m, o in inf.calls:
            if m == "_set_attrs":
                ev.append((o, ("set_attrs",)))
            elif m in I and m not in seen and m != name and (I[m].fmd_writes or I[m].external):
                sub = writes_of(m, seen + (name,))
                ev += [(o, e) for _, e in sub if e[0] in ("w", "set_attrs", "external")]
        ev.sort(key=lambda e: e[0])
        return ev

    mutators, failed = [], []
    mutator_names = sorted(n for n in methods if n not in PLUMBING and n != "_set_attrs"
                           and any(e[1][0] == "w" for e in writes_of(n)))
    for name in mutator_names:
        ev = writes_of(name)
        phases, cur_w, state = [], set(), {a: "Keep" for a in all_attrs}
        k = 0

        def close_phase():
            nonlocal cur_w, state, k
            k += 1
            phases.append({"name": "%s#%d" % (name, k), "writes": sorted(cur_w), "pols": finish(state, "Keep"), "default": "Keep"})
            cur_w, state = set(), {a: "Keep" for a in all_attrs}
        for _, e in ev:
            if e[0] == "w":
                if any(v != "Keep" for v in state.values()):
                    close_phase()          # a write after attributes were reset/refilled starts a new phase
                cur_w.add(e[1])
                if e[1] == "fmd.row_groups":
                    cur_w.add("origin")    # ghost: the dtypes must be re-derived from the edited row groups
            elif e[0] == "assign":
                a = e[1]
                if all(kind != "other" or attr == "?" for attr, kind in a["guards"]) or True:
                    rd = set(norm(a["reads"], a["attr"]))
                    if a["none"] or rd <= set("ctx." + c for c in ctx):
                        state[a["attr"]] = "Reset"
                    else:
                        state[a["attr"]] = "Keep"      # an update from other state: no claim
            elif e[0] == "memo_w":
                pass
            elif e[0] == "set_attrs":
                state = apply_updates(state, set_attrs_updates)
            elif e[0] == "external":
                pass
        if cur_w or any(v != "Keep" for v in state.values()):
            close_phase()
        # memo fields cached on fmd: reset when the method assigns None to them
        for ph in phases:
            for c, o, nrm in I[name].fmd_writes:
                if c.startswith("fmd["):
                    ph["pols"][c] = "Reset"
        mutators += [p for p in phases if p["writes"]]
    # memo fills on fmd inside non-mutators are fills (not resets): nothing to record

    # ---- failed variants of the appends: what the writer has put into fmd when the loop over the data raises
    wsrc = open(os.path.join(repo, "fastparquet", "writer.py")).read()
    wtree = ast.parse(wsrc)
    wfuncs = {n.name: n for n in wtree.body if isinstance(n, ast.FunctionDef)}
    for fname in ("write_simple", "write_multi"):
        if fname not in wfuncs:
            raise TranslatorError("writer.%s not found" % fname)
        w = failure_writes(wfuncs[fname])
        for mname in mutator_names:
            if any(f == fname for f, _ in I[mname].external):
                failed.append({"name": "%s!fails-in-%s" % (mname, fname), "writes": sorted(set(w) | ({"origin"} if "fmd.row_groups" in w else set())),
                               "pols": {a: "Keep" for a in all_attrs}, "default": "Keep"})
    obs_writes, obs_where = observer_writes(repo, tree, methods, set(PLUMBING) | set(mutator_names) | {"_set_attrs", "_read_partitions"})
    inv = {"obs_writes": obs_writes, "obs_where": {"%s/%s" % k: list(v) for k, v in obs_where.items()},
           "ctx": ctx, "memos": all_attrs, "lazy": lazy, "fmd_memos": fmd_memos, "cached_property": cached,
           "reads": reads_graph, "ground": ground, "derivs": derivs, "mutators": mutators + failed,
           "preserved": ["origin"] + ["ctx." + c for c in PRESERVED_CTX] + ["fmd." + f for f in PRESERVED_FMD],
           "known_attrs": sorted(set(all_attrs) | set(ctx) | {"fmd"})}
    return inv


def copy_protocol(methods):
    """which derivation copy.copy / copy.deepcopy amount to; unknown shapes of __copy__ / __deepcopy__ -> fail closed"""
    out = {"copy": "getstate", "deepcopy": "getstate"}
    if "__copy__" in methods:
        body = [st for st in methods["__copy__"].body if not (isinstance(st, ast.Expr) and isinstance(st.value, ast.Constant))]
        ok = (len(body) == 1 and isinstance(body[0], ast.Return) and isinstance(body[0].value, ast.Subscript)
              and isinstance(body[0].value.value, ast.Name) and body[0].value.value.id == "self" and isinstance(body[0].value.slice, ast.Slice))
        if not ok:
            raise TranslatorError("__copy__ is not `return self[<slice>]`")
        out["copy"] = "getitem"
    if "__deepcopy__" in methods:
        fn = methods["__deepcopy__"]
        calls, seen_get, seen_set, seen_rt = set(), False, False, False
        for n in ast.walk(fn):
            if isinstance(n, ast.Call):
                nm = n.func.attr if isinstance(n.func, ast.Attribute) else getattr(n.func, "id", None)
                calls.add(nm)
                if nm == "__getstate__" and isinstance(n.func.value, ast.Name) and n.func.value.id == "self":
                    seen_get = True
                if nm == "__setstate__":
                    seen_set = True
                if nm == "loads" and n.args and isinstance(n.args[0], ast.Call) and getattr(n.args[0].func, "attr", None) == "dumps":
                    seen_rt = True
                if nm == "pop" and not (n.args and _const(n.args[0]) == "fmd"):
                    raise TranslatorError("__deepcopy__ removes a state entry other than fmd")
            elif isinstance(n, (ast.Assign, ast.AugAssign)):
                for t in (n.targets if isinstance(n, ast.Assign) else [n.target]):
                    if isinstance(t, ast.Subscript) and _const(t.slice) != "fmd":
                        raise TranslatorError("__deepcopy__ edits a state entry other than fmd")
                    if isinstance(t, ast.Attribute):
                        raise TranslatorError("__deepcopy__ assigns attributes")
            elif isinstance(n, ast.Delete):
                raise TranslatorError("__deepcopy__ deletes")
        if not (seen_get and seen_set and seen_rt) or not calls <= {"__getstate__", "__setstate__", "pop", "deepcopy", "loads", "dumps", "__new__", "dict", "type"}:
            raise TranslatorError("__deepcopy__ is not getstate / pickle round trip of fmd / setstate: calls %s" % sorted(c for c in calls if c))
        out["deepcopy"] = "pickle"
    return out


def failure_writes(fn):
    """fields of `fmd` already assigned/mutated when the loop over `data` raises: fmd writes that are inside or before
    the loop `for ... in [enumerate(]data[)]` of the function (or of the nested function holding that loop)"""
    holder = None
    for n in ast.walk(fn):
        if isinstance(n, ast.FunctionDef):
            for st in n.body:
                if isinstance(st, ast.For) and "data" in {x.id for x in ast.walk(st.iter) if isinstance(x, ast.Name)}:
                    holder = (n, st)
    if holder is None:
        raise TranslatorError("writer.%s: loop over data not found" % fn.name)
    body, loop = holder[0].body, holder[1]
    raw = set()
    out = []

    def fmd_target(t):
        if isinstance(t, ast.Attribute) and isinstance(t.value, ast.Name) and t.value.id == "fmd":
            return "fmd." + t.attr
        if isinstance(t, ast.Subscript) and isinstance(t.value, ast.Name) and t.value.id == "fmd":
            c = _const(t.slice)
            if isinstance(c, int) and c in FMD_FIELDS:
                return "fmd." + FMD_FIELDS[c]
            return "fmd[%s]" % c
        return None

    def scan(stmts):
        for st in stmts:
            for n in ast.walk(st):
                if isinstance(n, ast.Assign):
                    for t in n.targets:
                        c = fmd_target(t)
                        if c:
                            out.append(c)
                    if len(n.targets) == 1 and isinstance(n.targets[0], ast.Name) and isinstance(n.value, ast.Subscript) \
                            and isinstance(n.value.value, ast.Name) and n.value.value.id == "fmd" and isinstance(_const(n.value.slice), int):
                        raw.add((n.targets[0].id, "fmd." + FMD_FIELDS.get(_const(n.value.slice), "?")))
                elif isinstance(n, ast.AugAssign):
                    c = fmd_target(n.target)
                    if c:
                        out.append(c)
                elif isinstance(n, ast.Call) and isinstance(n.func, ast.Attribute) and n.func.attr in LIST_MUTATORS:
                    v = n.func.value
                    if isinstance(v, ast.Name):
                        for nm, comp in raw:
                            if nm == v.id:
                                out.append(comp)
                    c = fmd_target(v) if isinstance(v, ast.Subscript) else None
                    if c:
                        out.append(c)
    i = body.index(loop)
    scan(body[:i + 1])
    return sorted(set(out))



# -----------------------------------------------------------------------------------------------
# observers must not write: in-place mutation of objects an observer obtained from the handle

MUT_METHODS = {"append", "extend", "insert", "remove", "pop", "clear", "sort", "reverse", "update", "setdefault", "add", "discard",
               "popitem", "__setitem__", "__delitem__", "fill", "resize", "put", "itemset", "setflags"}
FRESH_FUNCS = {"list", "sorted", "tuple", "reversed", "set", "dict", "enumerate", "zip", "iter", "frozenset", "OrderedDict", "copy"}
FRESH_METHODS = {"copy", "items", "values", "keys"}
ELEM_METHODS = {"get"}


HANDLE = "@handle"


class WriteScan:
    """one function: which handle attributes (or handle-reachable parameters) does it mutate in place?
    taint of a value = {attribute: depth}: depth 0 = the object the handle holds for that attribute or a part of it (mutating
    it is a write), depth k > 0 = a FRESH object whose parts k levels down are shared with it (copy.copy(x), list(x), x[:],
    [copy.copy(c) for c in x] ...): descending (item, attribute, iteration) lowers the depth, mutation counts at depth 0.
    The pseudo attribute HANDLE marks a value that IS a handle (depth 0) or a collection of handles (depth 1): loading an
    attribute of a handle yields that attribute's object."""

    def __init__(self, fn, handle, obj_params=(), ret_taint=None, handle_collections=()):
        self.fn, self.handle, self.ret = fn, handle, ret_taint or {}
        self.t = {p: {p: 0} for p in obj_params}
        for p in handle_collections:
            self.t[p] = {HANDLE: 1}
        self.fields = {}        # (local, attribute) -> taint assigned to local.attribute
        self.hits = []          # (attribute, line, what)
        self.returns = {}
        self.sub_memos = set()
        for _ in range(2):      # two passes: taints assigned later in a loop body reach earlier statements
            self.hits = []
            for st in fn.body:
                self.stmt(st)

    @staticmethod
    def join(*ts):
        out = {}
        for t in ts:
            for a, d in t.items():
                out[a] = min(d, out.get(a, d))
        return out

    @staticmethod
    def down(t):
        return {a: max(d - 1, 0) for a, d in t.items()}

    @staticmethod
    def fresh(t):
        """a new container holding the ITEMS of a value of taint t (list(x), x[:], copy.copy(x), x.items())"""
        return {a: max(d, 1) for a, d in t.items() if a != HANDLE} | ({HANDLE: max(t[HANDLE], 1)} if HANDLE in t else {})

    @staticmethod
    def wrap(t):
        """a new container whose items have taint t ([e for ...], (a, b), {k: v})"""
        return {a: d + 1 for a, d in t.items()}

    def attr_of(self, base, attr):
        out = {}
        if base.get(HANDLE) == 0:
            out = self.join(out, dict(self.ret[attr]) if attr in self.ret else {attr: 0})
        rest = {a: d for a, d in base.items() if a != HANDLE}
        return self.join(out, self.down(rest))

    def ev(self, n):
        if n is None:
            return {}
        if isinstance(n, ast.Attribute):
            if isinstance(n.value, ast.Name):
                if n.value.id == self.handle:
                    return dict(self.ret[n.attr]) if n.attr in self.ret else {n.attr: 0}
                if (n.value.id, n.attr) in self.fields:
                    return dict(self.fields[(n.value.id, n.attr)])
            return self.attr_of(self.ev(n.value), n.attr)
        if isinstance(n, ast.Subscript):
            b = self.ev(n.value)
            self.ev(n.slice) if not isinstance(n.slice, ast.Slice) else None
            if isinstance(n.slice, ast.Slice):
                return self.fresh(b)
            return self.down(b)
        if isinstance(n, ast.Name):
            if n.id == self.handle:
                return {HANDLE: 0}
            return dict(self.t.get(n.id, {}))
        if isinstance(n, ast.Call):
            f = n.func
            args = list(n.args) + [k.value for k in n.keywords]
            self.scan_call(n)
            if isinstance(f, ast.Name) and f.id in FRESH_FUNCS:
                return self.fresh(self.join(*[self.ev(a) for a in args]))
            if isinstance(f, ast.Attribute):
                if isinstance(f.value, ast.Name) and f.value.id == self.handle:
                    for a in args:
                        self.ev(a)
                    return dict(self.ret.get(f.attr, {}))
                if isinstance(f.value, ast.Name) and f.value.id == "copy" and f.attr == "copy":
                    return self.fresh(self.join(*[self.ev(a) for a in args]))
                if f.attr in FRESH_METHODS:
                    return self.fresh(self.ev(f.value))
                if f.attr in ELEM_METHODS or f.attr in ("pop", "setdefault"):
                    for a in args:
                        self.ev(a)
                    return self.down(self.ev(f.value))
                bt = self.ev(f.value)
                if bt.get(HANDLE) == 0:
                    for a in args:
                        self.ev(a)
                    return dict(self.ret.get(f.attr, {}))
            for a in args:
                self.ev(a)
            return {}
        if isinstance(n, (ast.ListComp, ast.SetComp, ast.GeneratorExp, ast.DictComp)):
            for g in n.generators:
                self.bind(g.target, self.down(self.ev(g.iter)))
                for c in g.ifs:
                    self.ev(c)
            if isinstance(n, ast.DictComp):
                self.ev(n.key)                      # (keys are hashable, hence immutable: only the values can alias)
            inner = self.ev(n.value) if isinstance(n, ast.DictComp) else self.ev(n.elt)
            return self.wrap(inner)
        if isinstance(n, (ast.Tuple, ast.List, ast.Set)):
            return self.wrap(self.join(*[self.ev(e) for e in n.elts]))
        if isinstance(n, ast.Dict):
            return self.wrap(self.join(*[self.ev(e) for e in n.values if e is not None]))
        if isinstance(n, ast.IfExp):
            self.ev(n.test)
            return self.join(self.ev(n.body), self.ev(n.orelse))
        if isinstance(n, ast.BoolOp):
            return self.join(*[self.ev(e) for e in n.values])
        if isinstance(n, ast.Starred):
            return self.ev(n.value)
        if isinstance(n, ast.NamedExpr):
            v = self.ev(n.value)
            self.t[n.target.id] = v
            return v
        for ch in ast.iter_child_nodes(n):
            if isinstance(ch, ast.expr):
                self.ev(ch)
        return {}

    @staticmethod
    def not_handles(test):
        if (isinstance(test, ast.Call) and getattr(test.func, "id", None) == "all" and len(test.args) == 1
                and isinstance(test.args[0], ast.GeneratorExp) and len(test.args[0].generators) == 1):
            g = test.args[0]
            e = g.elt
            if (isinstance(e, ast.UnaryOp) and isinstance(e.op, ast.Not) and isinstance(e.operand, ast.Call)
                    and getattr(e.operand.func, "id", None) == "isinstance" and len(e.operand.args) == 2
                    and "ParquetFile" in ast.dump(e.operand.args[1]) and isinstance(g.generators[0].iter, ast.Name)):
                return g.generators[0].iter.id
        return None

    def guarded_memo(self, local, key):
        for n in ast.walk(self.fn):
            if isinstance(n, ast.Call) and getattr(n.func, "id", None) == "hasattr" and len(n.args) == 2 and isinstance(n.args[0], ast.Name) \
                    and n.args[0].id == local and _const(n.args[1]) == key:
                return True
            if isinstance(n, ast.Compare) and isinstance(n.left, ast.Subscript) and isinstance(n.left.value, ast.Name) and n.left.value.id == local \
                    and _const(n.left.slice) == key and len(n.ops) == 1 and isinstance(n.ops[0], ast.Is):
                return True
        return False

    def hit(self, taint, node, what):
        for a, d in sorted(taint.items()):
            if d == 0 and a != HANDLE:
                self.hits.append((a, getattr(node, "lineno", 0), what))

    def scan_call(self, n):
        f = n.func
        if isinstance(f, ast.Attribute) and f.attr in MUT_METHODS:
            if isinstance(f.value, ast.Name) and f.value.id == self.handle:
                return
            self.hit(self.ev(f.value), n, "." + f.attr + "()")
            if isinstance(f.value, ast.Name) and f.attr in ("append", "insert", "add", "extend", "update") and n.args:
                # a local container grows by items that may be parts of handle objects
                at = self.ev(n.args[-1])
                add = self.fresh(at) if f.attr in ("extend", "update") else self.wrap(at)
                self.t[f.value.id] = self.join(self.t.get(f.value.id, {}), add) if self.t.get(f.value.id) else dict(add)

    def store(self, target, node, tv):
        if isinstance(target, (ast.Tuple, ast.List)):
            for e in target.elts:
                self.store(e, node, self.down(tv))
        elif isinstance(target, ast.Starred):
            self.store(target.value, node, tv)
        elif isinstance(target, (ast.Subscript, ast.Attribute)):
            if isinstance(target, ast.Attribute) and isinstance(target.value, ast.Name) and target.value.id == self.handle:
                return          # handle.attr = ...: an attribute assignment (memo fill / reset), the inventory's business
            if isinstance(target, ast.Subscript) and isinstance(_const(target.slice), str) and isinstance(target.value, ast.Name) \
                    and self.guarded_memo(target.value.id, _const(target.slice)):
                # x["name"] = ... under `if not hasattr(x, "name")` / `x["name"] is None`: a memo FIELD filled on a struct reached
                # from the handle (the converted statistics of a column chunk): a function of that struct and of the schema
                self.sub_memos.add(_const(target.slice))
                return
            base = self.ev(target.value)
            if base.get(HANDLE) == 0 and isinstance(target, ast.Attribute):
                # <a handle that is not `self`>.attr = ...  (e.g. pf.fmd = ... on an INPUT handle): a write to that handle
                self.hits.append((target.attr, getattr(node, "lineno", 0), "attribute assignment on an input handle"))
            self.hit(base, node, "item/attribute assignment")
            if isinstance(target, ast.Attribute) and isinstance(target.value, ast.Name):
                self.fields[(target.value.id, target.attr)] = dict(tv)      # local.attr now holds the assigned value

    def bind(self, target, tv):
        if isinstance(target, ast.Name):
            self.t[target.id] = dict(tv)                                    # strong update, in program order
            for k in [k for k in self.fields if k[0] == target.id]:
                del self.fields[k]
        elif isinstance(target, (ast.Tuple, ast.List)):
            for e in target.elts:
                self.bind(e, self.down(tv))
        elif isinstance(target, ast.Starred):
            self.bind(target.value, tv)

    def stmt(self, st):
        if isinstance(st, ast.Assign):
            tv = self.ev(st.value)
            for t in st.targets:
                self.store(t, st, tv)
                self.bind(t, tv)
        elif isinstance(st, ast.AugAssign):
            self.ev(st.value)
            if isinstance(st.target, ast.Name):
                self.hit(self.ev(st.target), st, "augmented assignment (in place for lists/arrays)")
            else:
                self.store(st.target, st, {})
        elif isinstance(st, ast.AnnAssign):
            if st.value is not None:
                self.bind(st.target, self.ev(st.value))
        elif isinstance(st, ast.Expr):
            self.ev(st.value)
        elif isinstance(st, ast.Return):
            if st.value is not None:
                self.returns = self.join(self.returns, self.ev(st.value))
        elif isinstance(st, ast.Delete):
            for t in st.targets:
                if isinstance(t, (ast.Subscript, ast.Attribute)) and not (isinstance(t.value, ast.Name) and t.value.id == self.handle and isinstance(t, ast.Attribute)):
                    self.hit(self.ev(t.value), st, "del")
        elif isinstance(st, ast.If) or isinstance(st, ast.While):
            self.ev(st.test)
            before = {k: dict(v) for k, v in self.t.items()}
            nh = self.not_handles(st.test)
            if nh is not None and nh in self.t:
                # `all(not isinstance(x, ParquetFile) for x in NAME)`: inside the branch NAME holds no handle
                self.t[nh] = {a: d for a, d in self.t[nh].items() if a != HANDLE}
            for s_ in st.body:
                self.stmt(s_)
            after_body = self.t
            self.t = before
            for s_ in st.orelse:
                self.stmt(s_)
            for k in set(after_body) | set(self.t):       # join of the two branches
                self.t[k] = self.join(after_body.get(k, {}), self.t.get(k, {}))
        elif isinstance(st, (ast.For, ast.AsyncFor)):
            self.bind(st.target, self.down(self.ev(st.iter)))
            for s_ in st.body + st.orelse:
                self.stmt(s_)
        elif isinstance(st, (ast.With, ast.AsyncWith)):
            for it in st.items:
                self.ev(it.context_expr)
            for s_ in st.body:
                self.stmt(s_)
        elif isinstance(st, ast.Try):
            for s_ in st.body + [x for h in st.handlers for x in h.body] + st.orelse + st.finalbody:
                self.stmt(s_)
        elif isinstance(st, (ast.Raise, ast.Assert)):
            for ch in ast.iter_child_nodes(st):
                if isinstance(ch, ast.expr):
                    self.ev(ch)
        elif isinstance(st, (ast.FunctionDef, ast.AsyncFunctionDef)):
            for s_ in st.body:       # nested helper: scanned with the same environment
                self.stmt(s_)


HANDLE_PARAMS = {"pf", "obj"}
OBJ_PARAMS = {"rg", "cats", "schema_helper", "schema", "partition_meta", "categories", "helper", "se", "fmd"}
# parameters that may hold a LIST of handles (ParquetFile([pf_a, pf_b]), merge([...])): the inputs must come out untouched
HANDLE_COLLECTIONS = {"file_list", "pfs"}
# module-level functions that EDIT the handle they are given (C16's subject), not observers
MODULE_MUTATORS = {"update_custom_metadata"}


def observer_writes(repo, tree, methods, not_observers):
    """{observer name: sorted list of handle attributes / handle-reachable parameters it mutates in place}"""
    ret = {}
    for _ in range(2):
        for name, fn in methods.items():
            ws = WriteScan(fn, "self", (), ret)
            ret[name] = dict(ws.returns)
    out, where = {}, {}
    for name, fn in methods.items():
        if name in not_observers:
            continue
        ws = WriteScan(fn, "self", (), ret)
        out[name] = sorted({a for a, _, _ in ws.hits})
        where.update({(name, a): (ln, w) for a, ln, w in ws.hits})
    mods = [("api", tree)]
    for mod in ("core", "util", "writer"):
        mpath = os.path.join(repo, "fastparquet", mod + ".py")
        if os.path.exists(mpath):
            mods.append((mod, ast.parse(open(mpath).read())))
    for mod, tr in mods:
        for fn in tr.body:
            if not isinstance(fn, ast.FunctionDef) or fn.name in MODULE_MUTATORS:
                continue
            params = [a.arg for a in fn.args.args + fn.args.kwonlyargs]
            if not params:
                continue
            handle = params[0] if params[0] in HANDLE_PARAMS else "\0"
            objs = [p for p in params if p in OBJ_PARAMS] if mod in ("api", "core") else []
            colls = [p for p in params if p in HANDLE_COLLECTIONS]
            if handle == "\0" and not objs and not colls:
                continue
            ws = WriteScan(fn, handle, objs, ret, colls)
            nm = "%s.%s" % (mod, fn.name)
            out[nm] = sorted({a for a, _, _ in ws.hits})
            where.update({(nm, a): (ln, w) for a, ln, w in ws.hits})
    return out, where

# -----------------------------------------------------------------------------------------------

def deps_of(inv, a, fuel=12):
    """Python mirror of Handle.deps (used only to describe a broken obligation and to aim the program search)"""
    seen, todo = set(), [(a, 0)]
    while todo:
        x, d = todo.pop()
        if x in seen or d > fuel:
            continue
        seen.add(x)
        for y in inv["reads"].get(x, ()):
            todo.append((y, d + 1))
    return sorted(c for c in seen if c in inv["ground"])


def offenders(inv):
    """Python mirror of Handle.offenders: [(operation, attribute or component, why)]"""
    out = []
    for o in inv["derivs"] + inv["mutators"]:
        for a in inv["memos"]:
            if o["pols"].get(a, o["default"]) == "Keep":
                hit = sorted(set(deps_of(inv, a)) & set(o["writes"]))
                if hit:
                    out.append((o["name"], a, "kept although it is computed from %s, which the operation writes" % ", ".join(hit)))
    for o in inv["derivs"]:
        for c in o["writes"]:
            if c in inv["preserved"]:
                out.append((o["name"], c, "a derived handle must inherit this component"))
    for ob, attrs in sorted(inv.get("obs_writes", {}).items()):
        for a in attrs:
            ln, w = inv.get("obs_where", {}).get("%s/%s" % (ob, a), (0, ""))
            out.append((ob, a, "an observer mutates in place an object it got from the handle (%s, line %s)" % (w, ln)))
    return out


def _s(x):
    return '"%s"' % x.replace('"', '""')


def _l(xs):
    return "[" + "; ".join(xs) + "]"


def _op(o):
    dflt = o["default"]
    pols = [(a, p) for a, p in sorted(o["pols"].items()) if p != dflt]
    return "mk_op %s %s %s %s" % (_s(o["name"]), _l(_s(w) for w in o["writes"]), _l("(%s, %s)" % (_s(a), p) for a, p in pols), dflt)


def gallina(inv, name="gen_inv"):
    return ("Definition %s : inventory :=\n  mk_inv\n   %s\n   %s\n   %s\n   %s\n   %s\n   %s\n   %s.\n" % (
        name, _l(_s(m) for m in inv["memos"]),
        _l("(%s, %s)" % (_s(k), _l(_s(x) for x in v)) for k, v in sorted(inv["reads"].items())),
        _l(_s(g) for g in inv["ground"]),
        "[" + ";\n    ".join(_op(o) for o in inv["derivs"]) + "]",
        "[" + ";\n    ".join(_op(o) for o in inv["mutators"]) + "]",
        _l(_s(p) for p in inv["preserved"]),
        _l("(%s, %s)" % (_s(k), _l(_s(x) for x in v)) for k, v in sorted(inv.get("obs_writes", {}).items()))))


HEADER = """(* GENERATED by translators/handle2coq.py from fastparquet/api.py (class ParquetFile) and fastparquet/writer.py; never committed. *)
From Coq Require Import List String.
From Pq Require Import Dataset.Handle.
Import ListNotations.
Open Scope string_scope.
"""


def run(repo, gen_dir):
    out = os.path.join(gen_dir, "GenHandle.v")
    if os.path.exists(out):
        os.unlink(out)
    try:
        inv = analyse(repo)
    except TranslatorError as e:
        return {"status": "translator_fallback", "reason": str(e)}
    except (SyntaxError, KeyError, IndexError, AttributeError, TypeError) as e:      # fail closed on anything unexpected
        return {"status": "translator_fallback", "reason": "%s: %s" % (type(e).__name__, e)}
    os.makedirs(gen_dir, exist_ok=True)
    open(out, "w").write(HEADER + gallina(inv))
    return {"status": "translated", "file": out, "inventory": inv}


if __name__ == "__main__":
    import sys
    r = analyse(sys.argv[1])
    if len(sys.argv) > 2 and sys.argv[2] == "coq":
        print(gallina(r, sys.argv[3] if len(sys.argv) > 3 else "gen_inv"))
    else:
        print(json.dumps(r, indent=1))
