"""callsites2coq: every construction of a thrift object in the given Python files
(`parquet_thrift.X(...)`, `ThriftObject.from_fields("X", ...)`) -> Gallina list of
Pq.Thrift.Tables.callsite records: struct name, keyword names, which keywords are given a
syntactically boolean expression, and the i32 / i32list markers.  Fails closed: `**kwargs`, positional
field arguments, a non-constant struct name or non-literal markers raise CallsiteError with the location."""
import ast
import os


class CallsiteError(Exception):
    pass


ENUMS = {"Type", "ConvertedType", "FieldRepetitionType", "Encoding", "CompressionCodec", "PageType", "BoundaryOrder"}


def _boolish(e):
    if isinstance(e, ast.Constant):
        return isinstance(e.value, bool)
    if isinstance(e, ast.Compare):
        return True
    if isinstance(e, ast.UnaryOp) and isinstance(e.op, ast.Not):
        return True
    if isinstance(e, ast.BoolOp):
        return all(_boolish(v) for v in e.values)
    if isinstance(e, ast.Call) and isinstance(e.func, ast.Name) and e.func.id in ("bool", "isinstance", "any", "all"):
        return True
    if isinstance(e, ast.IfExp):
        return _boolish(e.body) or _boolish(e.orelse)
    return False


def _enumref(e):
    """parquet_thrift.<Enum>.<MEMBER> -> (Enum, MEMBER)"""
    if isinstance(e, ast.Attribute) and isinstance(e.value, ast.Attribute) and isinstance(e.value.value, ast.Name) \
            and e.value.value.id == "parquet_thrift" and e.value.attr in ENUMS:
        return (e.value.attr, e.attr)
    return None


def enum_uses(path):
    """every `parquet_thrift.<Enum>.<NAME>` in the file (constants only; `_VALUES_TO_NAMES` lookups etc. are skipped)"""
    tree = ast.parse(open(path, encoding="utf-8").read(), filename=path)
    out = set()
    for node in ast.walk(tree):
        r = _enumref(node)
        if r and not r[1].startswith("_"):
            out.add(r)
    return sorted(out)


def sites(path):
    fn = os.path.basename(path)
    tree = ast.parse(open(path, encoding="utf-8").read(), filename=path)
    out = []
    for node in ast.walk(tree):
        if not isinstance(node, ast.Call):
            continue
        f = node.func
        name = None
        args = list(node.args)
        if isinstance(f, ast.Attribute) and isinstance(f.value, ast.Name) and f.value.id == "parquet_thrift" \
                and f.attr[:1].isupper() and f.attr not in ENUMS:
            name = f.attr
        elif isinstance(f, ast.Attribute) and f.attr == "from_fields" and isinstance(f.value, ast.Name) and f.value.id == "ThriftObject":
            if not args or not (isinstance(args[0], ast.Constant) and isinstance(args[0].value, str)):
                kw = [k for k in node.keywords if k.arg == "thrift_name"]
                if len(kw) == 1 and isinstance(kw[0].value, ast.Constant) and isinstance(kw[0].value.value, str):
                    name = kw[0].value.value
                else:
                    raise CallsiteError("%s:%d: from_fields with a non-constant struct name" % (fn, node.lineno))
            else:
                name = args[0].value
                args = args[1:]
        if name is None:
            continue
        where = "%s:%d" % (fn, node.lineno)
        if args:
            raise CallsiteError("%s: positional field arguments" % where)
        fields, boolish, i32, i32l, enumrefs, intlits = [], [], False, None, [], []
        for k in node.keywords:
            if k.arg is None:
                raise CallsiteError("%s: **kwargs" % where)
            if k.arg == "thrift_name":
                continue
            if k.arg == "i32":
                if not (isinstance(k.value, ast.Constant) and k.value.value in (True, False, 0, 1)):
                    raise CallsiteError("%s: i32 marker is not a literal" % where)
                i32 = bool(k.value.value)
            elif k.arg == "i32list":
                if isinstance(k.value, ast.Constant) and k.value.value is None:
                    continue
                if not (isinstance(k.value, ast.List) and all(isinstance(e, ast.Constant) and isinstance(e.value, int)
                                                               and not isinstance(e.value, bool) and e.value >= 0 for e in k.value.elts)):
                    raise CallsiteError("%s: i32list marker is not a literal list of ints" % where)
                i32l = [e.value for e in k.value.elts] or None      # an empty list is falsy: from_fields does not set it
            else:
                fields.append(k.arg)
                if _boolish(k.value):
                    boolish.append(k.arg)
                r = _enumref(k.value)
                if r:
                    enumrefs.append((k.arg, r[0], r[1]))
                elif isinstance(k.value, ast.Constant) and isinstance(k.value.value, int) and not isinstance(k.value.value, bool):
                    intlits.append((k.arg, k.value.value))
        out.append((fn, node.lineno, name, fields, boolish, i32, i32l, enumrefs, intlits))
    out.sort(key=lambda s: (s[0], s[1], s[2]))
    return out


def _s(x):
    if '"' in x:
        raise CallsiteError("quote in name")
    return '"%s"' % x


def translate(paths, enum_paths=None):
    allsites = []
    for p in paths:
        allsites += sites(p)
    if not allsites:
        raise CallsiteError("no construction site found (the translator no longer understands the sources)")
    uses = sorted(set(u for p in (enum_paths or paths) for u in enum_uses(p)))
    o = ["From Coq Require Import NArith ZArith List String.", "From Pq Require Import Thrift.Tables.", "Import ListNotations.",
         "Open Scope string_scope.", "Open Scope N_scope.", "", "Definition callsites : list callsite :=", " ["]
    o.append(";\n".join("  mkCS %s %d %s [%s] [%s] %s %s [%s] [%s]" % (
        _s(fn), ln, _s(name), "; ".join(_s(f) for f in fields), "; ".join(_s(f) for f in boolish),
        "true" if i32 else "false", "None" if i32l is None else "(Some [%s])" % "; ".join(str(i) for i in i32l),
        "; ".join("(%s, (%s, %s))" % (_s(f), _s(e), _s(m)) for f, e, m in enumrefs),
        "; ".join("(%s, %s%%Z)" % (_s(f), ("(%d)" % z) if z < 0 else str(z)) for f, z in intlits))
        for fn, ln, name, fields, boolish, i32, i32l, enumrefs, intlits in allsites))
    o += [" ].", "", "(* every `parquet_thrift.<Enum>.<NAME>` constant the files mention *)",
          "Definition enum_uses : list (string * string) :=", " [" + "; ".join("(%s, %s)" % (_s(e), _s(m)) for e, m in uses) + "]."]
    return "\n".join(o) + "\n"


if __name__ == "__main__":
    import sys
    print(translate(sys.argv[1:]))
