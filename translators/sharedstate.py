"""sharedstate — inventory of the shared mutable state of the fastparquet package (C20), regenerated from the
source on every run (Python `ast` -> data + Gallina text).

Two tables:

* LOCATIONS: every place where state that outlives one call can live
    module_global   name bound at module level (incl. inside module-level if/try/for/with), with the syntactic kind
                    of the bound value (const / dict / list / set / call:<callee> / ref:<name> / expr)
    class_attr      name bound in a class body
    default_arg     non-constant default value of a function parameter (evaluated once, shared by all calls)
    global_stmt     `global X` inside a function (a module global (re)bound after import)
    memo_decorator  function decorated with lru_cache / cache / cached_property
    func_attr       attribute stored on a function object (`f.cache = ...`)
    closure_cell    variable of an enclosing function captured by a nested function

* SITES: every statement that stores into an object or rebinds a global: subscript / attribute stores, augmented
  assignments, deletes, calls of mutating methods.  Per site: the BASE the stored-into object is reached from
  (self / global:<name> / default:<fn>.<arg> / classattr / param:<name> / fresh / local, through a flow-insensitive
  alias map of the function's locals) and the PATTERN of the write as the source gives it away:

    check_then_act   store guarded by an absence test of the same target (`if k not in d: d[k] = v`,
                     `if not hasattr(s, k): s[k] = v`, `if self._x is None: self._x = v`, try/except KeyError)
    augmented        `x op= e`
    rmw              `x = f(x)` (the stored value is computed from a load of the same target)
    set_restore      the old value is saved in a local, the target is overwritten, the local is stored back
    multi_store      the same target is stored more than once on one path of the function (publish, then update)
    delete           `del x`
    mutcall          call of a mutating method (append, update, pop, seek, write, ...) on the object
    plain            any other store

The Coq side (Conc/Footprint.v) says which patterns are confluent and which are refuted; the run-time monitor maps
every observed shared write to its site (file, line range) and through it to the pattern.

Fail closed: a syntax error or an unexpected node makes `run` return {"status": "translator_fallback", ...}."""
import ast
import os

PKG_FILES = ["api.py", "core.py", "writer.py", "encoding.py", "util.py", "converted_types.py", "dataframe.py", "schema.py",
             "json.py", "compression.py", "thrift_structures.py", "__init__.py"]

MUTATORS = {"append", "extend", "insert", "pop", "popitem", "clear", "update", "setdefault", "remove", "discard", "add",
            "sort", "reverse", "seek", "write", "truncate", "read", "readinto", "readline", "readlines", "close", "fill",
            "resize", "put", "itemset", "setflags", "__setitem__", "__delitem__", "__setattr__", "write_byte", "write_int",
            "write_long", "write_many", "read_byte", "read_int", "read_long", "move_to_end", "appendleft", "popleft",
            "cache_clear", "flush", "writelines", "setfield", "partition", "byteswap"}

MEMO_DECOS = {"lru_cache", "cache", "cached_property"}

# calls that change state of the PROCESS every thread sees (saved / changed / restored around a block or set for good)
PROCESS_GLOBAL_CALLS = {"warnings.catch_warnings", "warnings.simplefilter", "warnings.filterwarnings", "warnings.resetwarnings",
                        "os.chdir", "os.umask", "os.putenv", "os.unsetenv", "locale.setlocale", "sys.setrecursionlimit",
                        "sys.setswitchinterval", "np.seterr", "numpy.seterr", "np.seterrcall", "pd.set_option", "pandas.set_option",
                        "pd.option_context", "pandas.option_context", "np.random.seed", "numpy.random.seed", "random.seed",
                        "np.set_printoptions", "gc.disable", "gc.enable", "signal.signal", "faulthandler.enable"}

PATTERNS = ["check_then_act", "idem_store", "augmented", "rmw", "set_restore", "multi_store", "delete", "mutcall", "plain"]
BASES = ["self", "global", "default", "classattr", "param", "fresh", "local"]
LKINDS = ["module_global", "class_attr", "default_arg", "global_stmt", "memo_decorator", "func_attr", "closure_cell"]

# methods in which `self` is the object under construction (not yet published to any other thread)
CTOR_METHODS = {"__init__", "__new__", "__setstate__", "__post_init__", "__init_subclass__", "__set_name__"}


def dotted(node):
    if isinstance(node, ast.Name):
        return node.id
    if isinstance(node, ast.Attribute):
        d = dotted(node.value)
        return (d + "." + node.attr) if d else None
    return None


def vkind(node):
    if node is None:
        return "none"
    if isinstance(node, ast.Constant):
        return "const"
    if isinstance(node, ast.Tuple):
        return "const" if all(vkind(e) == "const" for e in node.elts) else "tuple"
    if isinstance(node, (ast.Dict, ast.DictComp)):
        return "dict"
    if isinstance(node, (ast.List, ast.ListComp)):
        return "list"
    if isinstance(node, (ast.Set, ast.SetComp)):
        return "set"
    if isinstance(node, ast.Call):
        return "call:" + (dotted(node.func) or "?")
    if isinstance(node, (ast.Name, ast.Attribute)):
        return "ref:" + (dotted(node) or "?")
    if isinstance(node, ast.Lambda):
        return "func"
    if isinstance(node, ast.UnaryOp) and isinstance(node.operand, ast.Constant):
        return "const"
    return "expr"


def root_and_chain(node):
    """strip Subscript / Attribute / Starred (and .get(...) / getattr(x, ...) calls) down to the root Name"""
    n = node
    while True:
        if isinstance(n, (ast.Subscript, ast.Attribute, ast.Starred)):
            n = n.value
        elif isinstance(n, ast.Call) and isinstance(n.func, ast.Attribute) and n.func.attr in ("get", "setdefault", "view", "__getitem__"):
            n = n.func.value
        elif isinstance(n, ast.Call) and isinstance(n.func, ast.Name) and n.func.id in ("getattr",) and n.args:
            n = n.args[0]
        else:
            break
    return n.id if isinstance(n, ast.Name) else None


def unparse(n):
    try:
        return ast.unparse(n)
    except Exception:           # noqa
        return "?"


def norm_target(n):
    """canonical text of a storage target: o.a, o['a'] and getattr(o, 'a') name the same slot of a thrift object / handle"""
    if isinstance(n, ast.Attribute):
        return "%s.%s" % (norm_target(n.value), n.attr)
    if isinstance(n, ast.Subscript):
        s = n.slice
        if isinstance(s, ast.Constant) and isinstance(s.value, str) and s.value.isidentifier():
            return "%s.%s" % (norm_target(n.value), s.value)
        return "%s[%s]" % (norm_target(n.value), unparse(s))
    if isinstance(n, ast.Call) and isinstance(n.func, ast.Name) and n.func.id == "getattr" and len(n.args) >= 2 \
            and isinstance(n.args[1], ast.Constant):
        return "%s.%s" % (norm_target(n.args[0]), n.args[1].value)
    if isinstance(n, ast.Call) and isinstance(n.func, ast.Attribute) and n.func.attr == "get" and n.args:
        a = n.args[0]
        if isinstance(a, ast.Constant) and isinstance(a.value, str) and a.value.isidentifier():
            return "%s.%s" % (norm_target(n.func.value), a.value)
        return "%s[%s]" % (norm_target(n.func.value), unparse(a))
    return unparse(n)


def loads_of(expr):
    """normalised texts of every slot loaded inside expr"""
    out = set()
    for n in ast.walk(expr):
        if isinstance(n, (ast.Attribute, ast.Subscript, ast.Name, ast.Call)):
            out.add(norm_target(n))
    return out


def absence_tests(test, aliases):
    """the set of normalised targets whose ABSENCE makes `test` true (a disjunction is absent-if-any); also the set whose
    PRESENCE makes it true (for `else:` branches).  aliases: local name -> normalised slot it was loaded from"""
    absent, present = set(), set()

    def slot(n):
        t = norm_target(n)
        if isinstance(n, ast.Name) and n.id in aliases:
            return aliases[n.id]
        return t

    def one(t, neg):
        # neg=False: t true means ...; returns (absent, present)
        if isinstance(t, ast.UnaryOp) and isinstance(t.op, ast.Not):
            return one(t.operand, not neg)
        if isinstance(t, ast.BoolOp):
            for v in t.values:
                one(v, neg)
            return
        if isinstance(t, ast.Compare) and len(t.ops) == 1:
            op, l, r = t.ops[0], t.left, t.comparators[0]
            if isinstance(op, (ast.NotIn, ast.In)):
                key = "%s[%s]" % (norm_target(r), unparse(l))
                if isinstance(l, ast.Constant) and isinstance(l.value, str) and l.value.isidentifier():
                    key = "%s.%s" % (norm_target(r), l.value)
                (absent if isinstance(op, ast.NotIn) != neg else present).add(key)
                return
            if isinstance(op, (ast.Is, ast.Eq, ast.IsNot, ast.NotEq)) and isinstance(r, ast.Constant) and r.value is None:
                isabs = isinstance(op, (ast.Is, ast.Eq))
                (absent if isabs != neg else present).add(slot(l))
                return
            return
        if isinstance(t, ast.Call) and isinstance(t.func, ast.Name) and t.func.id == "hasattr" and len(t.args) == 2 \
                and isinstance(t.args[1], ast.Constant):
            key = "%s.%s" % (norm_target(t.args[0]), t.args[1].value)
            (present if not neg else absent).add(key)
            return
        if isinstance(t, (ast.Name, ast.Attribute, ast.Subscript, ast.Call)):
            # truthiness of the slot itself: `if not self._x:` / `if x:`
            (present if not neg else absent).add(slot(t))
            return
    one(test, False)
    return absent, present


class FuncInfo:
    def __init__(self, module, qual, node, cls, params, defaults):
        self.module, self.qual, self.node, self.cls = module, qual, node, cls
        self.params, self.defaults = params, defaults


class ModuleScan(ast.NodeVisitor):
    def __init__(self, module, tree, pkg_modules, pkg_methods=()):
        self.pkg_methods = set(pkg_methods)
        self.module = module
        self.tree = tree
        self.pkg_modules = pkg_modules
        self.locations = []
        self.sites = []
        self.globals = {}           # name -> vkind (module-level bindings)
        self.imports = {}           # local alias -> package module name (from . import util / from .util import x -> "util.x")
        self.funcs = []
        self.calls = {}             # qual -> set of callee names (for the call graph)

    # ---- pass 1: module-level bindings, classes, functions ------------------------------------------------
    def scan(self):
        self._module_body(self.tree.body)
        for fi in self.funcs:
            self._function(fi)
        self._module_sites()

    def _bind(self, name, value, line, kind="module_global", owner=None):
        vk = vkind(value)
        if kind == "module_global":
            self.globals.setdefault(name, vk)
        self.locations.append({"kind": kind, "module": self.module, "name": name if owner is None else "%s.%s" % (owner, name),
                               "line": line, "valkind": vk})

    def _module_body(self, body, cls=None, prefix=""):
        for st in body:
            if isinstance(st, (ast.Import, ast.ImportFrom)):
                for a in st.names:
                    local = a.asname or a.name.split(".")[0]
                    if isinstance(st, ast.ImportFrom):
                        mod = (st.module or "")
                        if st.level > 0 or mod.startswith("fastparquet"):
                            base = mod.replace("fastparquet.", "").replace("fastparquet", "")
                            if a.name in self.pkg_modules and not base:
                                self.imports[local] = a.name
                            elif base.split(".")[0] in self.pkg_modules:
                                self.imports[local] = base.split(".")[0] + "." + a.name
                    if cls is None:
                        self.globals.setdefault(local, "import")
            elif isinstance(st, (ast.Assign, ast.AnnAssign, ast.AugAssign)):
                targets = st.targets if isinstance(st, ast.Assign) else [st.target]
                for t in targets:
                    for n in ([t] if not isinstance(t, (ast.Tuple, ast.List)) else t.elts):
                        if isinstance(n, ast.Name):
                            if cls is None:
                                self._bind(n.id, getattr(st, "value", None), st.lineno)
                            else:
                                self._bind(n.id, getattr(st, "value", None), st.lineno, "class_attr", prefix + cls)
                        elif isinstance(n, ast.Attribute) and cls is None and isinstance(n.value, ast.Name):
                            # f.attr = ... at module level: attribute on a function / class / module object
                            self._bind(n.attr, getattr(st, "value", None), st.lineno, "func_attr", n.value.id)
            elif isinstance(st, (ast.FunctionDef, ast.AsyncFunctionDef)):
                if cls is None:
                    self.globals.setdefault(st.name, "func")
                self._register_func(st, cls, prefix)
            elif isinstance(st, ast.ClassDef):
                if cls is None:
                    self.globals.setdefault(st.name, "class")
                self._module_body(st.body, cls=st.name, prefix=prefix + (cls + "." if cls else ""))
            elif isinstance(st, (ast.If, ast.Try, ast.For, ast.While, ast.With)):
                for fld in ("body", "orelse", "finalbody"):
                    self._module_body(getattr(st, fld, []) or [], cls, prefix)
                for h in getattr(st, "handlers", []) or []:
                    self._module_body(h.body, cls, prefix)
                if isinstance(st, ast.For) and isinstance(st.target, ast.Name) and cls is None:
                    self._bind(st.target.id, None, st.lineno)

    def _register_func(self, node, cls, prefix):
        qual = prefix + ((cls + ".") if cls else "") + node.name
        a = node.args
        params = [x.arg for x in a.posonlyargs + a.args] + ([a.vararg.arg] if a.vararg else []) + \
                 [x.arg for x in a.kwonlyargs] + ([a.kwarg.arg] if a.kwarg else [])
        defaults = {}
        pos = a.posonlyargs + a.args
        for p, d in zip(pos[len(pos) - len(a.defaults):], a.defaults):
            defaults[p.arg] = d
        for p, d in zip(a.kwonlyargs, a.kw_defaults):
            if d is not None:
                defaults[p.arg] = d
        for p, d in defaults.items():
            vk = vkind(d)
            if vk != "const":
                self.locations.append({"kind": "default_arg", "module": self.module, "name": "%s.%s" % (qual, p),
                                       "line": d.lineno, "valkind": vk})
        for d in node.decorator_list:
            nm = dotted(d.func if isinstance(d, ast.Call) else d) or ""
            if nm.split(".")[-1] in MEMO_DECOS:
                self.locations.append({"kind": "memo_decorator", "module": self.module, "name": qual, "line": node.lineno,
                                       "valkind": "call:" + nm})
        self.funcs.append(FuncInfo(self.module, qual, node, cls, params, defaults))
        # nested functions / classes
        outer_assigned = set()
        for n in ast.walk(node):
            if n is node:
                continue
            if isinstance(n, ast.Name) and isinstance(n.ctx, ast.Store):
                outer_assigned.add(n.id)
        for st in ast.walk(node):
            if st is node:
                continue
            if isinstance(st, (ast.FunctionDef, ast.AsyncFunctionDef, ast.Lambda)) and self._direct_child_func(node, st):
                if not isinstance(st, ast.Lambda):
                    self._register_func(st, None, qual + ".<locals>.")
                inner_assigned = {n.id for n in ast.walk(st) if isinstance(n, ast.Name) and isinstance(n.ctx, ast.Store)}
                inner_params = {x.arg for x in st.args.args + st.args.kwonlyargs + st.args.posonlyargs}
                free = {n.id for n in ast.walk(st) if isinstance(n, ast.Name) and isinstance(n.ctx, ast.Load)} - inner_assigned - inner_params
                for v in sorted(free & (outer_assigned | set(params))):
                    self.locations.append({"kind": "closure_cell", "module": self.module,
                                           "name": "%s.<cell>.%s" % (qual, v), "line": st.lineno, "valkind": "cell"})

    @staticmethod
    def _direct_child_func(outer, inner):
        """inner is a def/lambda nested in outer with no other def in between"""
        stack = list(ast.iter_child_nodes(outer))
        while stack:
            n = stack.pop()
            if n is inner:
                return True
            if isinstance(n, (ast.FunctionDef, ast.AsyncFunctionDef, ast.Lambda, ast.ClassDef)):
                continue
            stack.extend(ast.iter_child_nodes(n))
        return False

    # ---- pass 2: write sites ----------------------------------------------------------------------------------
    def _own_nodes(self, node):
        """nodes of this function body, not descending into nested defs / classes"""
        stack = list(ast.iter_child_nodes(node))
        while stack:
            n = stack.pop()
            yield n
            if isinstance(n, (ast.FunctionDef, ast.AsyncFunctionDef, ast.ClassDef, ast.Lambda)):
                continue
            stack.extend(ast.iter_child_nodes(n))

    def _function(self, fi):
        node = fi.node
        declared_global = set()
        local_assigned = {}
        for n in self._own_nodes(node):
            if isinstance(n, ast.Global):
                for g in n.names:
                    declared_global.add(g)
                    self.locations.append({"kind": "global_stmt", "module": self.module, "name": "%s@%s" % (g, fi.qual),
                                           "line": n.lineno, "valkind": "rebind"})
            elif isinstance(n, (ast.Assign, ast.AnnAssign)) and getattr(n, "value", None) is not None:
                for t in (n.targets if isinstance(n, ast.Assign) else [n.target]):
                    if isinstance(t, ast.Name):
                        local_assigned.setdefault(t.id, []).append(n.value)
                    elif isinstance(t, (ast.Tuple, ast.List)):
                        for e in t.elts:
                            if isinstance(e, ast.Name):
                                local_assigned.setdefault(e.id, []).append(None)
            elif isinstance(n, (ast.For, ast.comprehension)):
                for e in ast.walk(n.target):
                    if isinstance(e, ast.Name):
                        local_assigned.setdefault(e.id, []).append(n.iter)      # element of an iterable: aliases the iterable's base
            elif isinstance(n, ast.withitem) and n.optional_vars is not None and isinstance(n.optional_vars, ast.Name):
                local_assigned.setdefault(n.optional_vars.id, []).append(n.context_expr)
            elif isinstance(n, ast.NamedExpr) and isinstance(n.target, ast.Name):
                local_assigned.setdefault(n.target.id, []).append(n.value)
        selfname = fi.params[0] if (fi.cls and fi.params and not any(
            (dotted(d) or "") in ("staticmethod",) for d in node.decorator_list)) else None
        fresh_self = fi.cls is not None and node.name in CTOR_METHODS

        memo = {}

        def base_of_name(name, depth=0):
            if name in memo:
                return memo[name]
            memo[name] = ("local", name)        # cycle guard
            r = None
            if name == selfname:
                r = ("fresh", "self") if fresh_self else ("self", "self")
            elif name in declared_global:
                r = ("global", "%s.%s" % (self.module, name))
            elif name in local_assigned and name not in fi.params:
                best = None
                for v in local_assigned[name]:
                    b = base_of_expr(v, depth + 1) if v is not None else ("local", name)
                    if best is None or BASES.index(b[0]) < BASES.index(best[0]):
                        best = b
                r = best
            elif name in fi.params:
                if name in fi.defaults and vkind(fi.defaults[name]) != "const":
                    r = ("default", "%s.%s.%s" % (self.module, fi.qual, name))
                elif fresh_self:
                    r = ("fresh", name)         # what a constructor is given is adopted by the object under construction
                else:
                    r = ("param", name)
                if name in local_assigned:      # a parameter that is also rebound: keep the more shared view
                    pass
            elif name in self.imports:
                r = ("global", self.imports[name])
            elif name in self.globals and self.globals[name] not in ("func", "class", "import"):
                r = ("global", "%s.%s" % (self.module, name))
            elif name in self.globals and self.globals[name] == "class":
                r = ("classattr", "%s.%s" % (self.module, name))
            else:
                r = ("local", name)
            memo[name] = r
            return r

        def base_of_expr(e, depth=0):
            if e is None or depth > 6:
                return ("local", "?")
            if isinstance(e, ast.BoolOp):           # `a or {}`: either operand
                best = ("fresh", "literal")
                for v_ in e.values:
                    b_ = base_of_expr(v_, depth + 1)
                    if BASES.index(b_[0]) < BASES.index(best[0]):
                        best = b_
                return best
            if isinstance(e, (ast.Dict, ast.List, ast.Set, ast.ListComp, ast.DictComp, ast.SetComp, ast.Constant, ast.Tuple,
                              ast.JoinedStr, ast.BinOp, ast.Compare, ast.UnaryOp, ast.GeneratorExp)):
                return ("fresh", "literal")
            rt = root_and_chain(e)
            if rt is None:
                inner = e
                while True:                             # (a or {}).get(k): look through the chain at the parenthesised operand
                    if isinstance(inner, (ast.Subscript, ast.Attribute, ast.Starred)):
                        inner = inner.value
                    elif isinstance(inner, ast.Call) and isinstance(inner.func, ast.Attribute) and inner.func.attr in ("get", "setdefault", "view", "__getitem__"):
                        inner = inner.func.value
                    else:
                        break
                if inner is not e and isinstance(inner, (ast.BoolOp, ast.IfExp)):
                    return base_of_expr(inner, depth + 1)
                if isinstance(e, ast.Call):
                    return ("fresh", "call")
                if isinstance(e, ast.IfExp):
                    a, b = base_of_expr(e.body, depth + 1), base_of_expr(e.orelse, depth + 1)
                    return a if BASES.index(a[0]) < BASES.index(b[0]) else b
                return ("local", "?")
            b = base_of_name(rt, depth)
            # module attribute chain: util.seps -> global util.seps
            if b[0] == "global" and rt in self.imports and "." not in b[1]:
                d = dotted(e) if not isinstance(e, ast.Subscript) else dotted(e.value)
                n = e
                while isinstance(n, (ast.Subscript,)):
                    n = n.value
                d = dotted(n)
                if d and "." in d:
                    return ("global", "%s.%s" % (b[1], d.split(".")[1]))
            return b

        # alias map for guards: local name -> slot text it was loaded from
        aliases = {}
        for nm, vals in local_assigned.items():
            for v in vals:
                if v is not None and isinstance(v, (ast.Attribute, ast.Subscript, ast.Call)):
                    t = norm_target(v)
                    if "(" not in t:
                        aliases.setdefault(nm, t)

        sites = []

        def add(stmt, target, pattern, extra=None, guard=None):
            b = base_of_expr(target)
            sites.append({"module": self.module, "file": self.module + ".py", "func": fi.qual, "line": stmt.lineno,
                          "end_line": getattr(stmt, "end_lineno", stmt.lineno), "base": b[0], "base_name": b[1],
                          "target": norm_target(target), "pattern": pattern, "guard_line": guard, "detail": extra})

        def walk_body(body, guards):
            """guards: list of (absent set, line) in force for this body"""
            for st in body:
                visit_stmt(st, guards)

        def guarded(target_text, guards):
            for absent, line in guards:
                if target_text in absent:
                    return line
            return None

        def stores_in(st):
            """(target node, kind) for the direct stores of one simple statement"""
            out = []
            if isinstance(st, ast.Assign):
                for t in st.targets:
                    for e in ([t] if not isinstance(t, (ast.Tuple, ast.List)) else t.elts):
                        out.append((e, "assign", st.value))
            elif isinstance(st, ast.AnnAssign) and st.value is not None:
                out.append((st.target, "assign", st.value))
            elif isinstance(st, ast.AugAssign):
                out.append((st.target, "aug", st.value))
            elif isinstance(st, ast.Delete):
                for t in st.targets:
                    out.append((t, "del", None))
            return out

        def visit_stmt(st, guards):
            if isinstance(st, (ast.FunctionDef, ast.AsyncFunctionDef, ast.ClassDef)):
                return
            if isinstance(st, ast.If):
                absent, present = absence_tests(st.test, aliases)
                calls_in(st.test, st, guards)
                walk_body(st.body, guards + [(absent, st.lineno)])
                walk_body(st.orelse, guards + [(present, st.lineno)])
                return
            if isinstance(st, ast.Try):
                # try: ... d[k] ... except (KeyError, AttributeError): d[k] = v
                loaded = set()
                for s2 in st.body:
                    loaded |= loads_of(s2)
                walk_body(st.body, guards)
                for h in st.handlers:
                    names = {dotted(x) for x in ([h.type] if not isinstance(h.type, ast.Tuple) else h.type.elts)} if h.type is not None else {None}
                    g = guards + [(loaded, st.lineno)] if names & {"KeyError", "AttributeError", "LookupError", None, "Exception"} else guards
                    walk_body(h.body, g)
                walk_body(st.orelse, guards)
                walk_body(st.finalbody, guards)
                return
            if isinstance(st, (ast.For, ast.While, ast.With, ast.AsyncFor, ast.AsyncWith)):
                for fld in ("iter", "test"):
                    if getattr(st, fld, None) is not None:
                        calls_in(getattr(st, fld), st, guards)
                for it in getattr(st, "items", []) or []:
                    calls_in(it.context_expr, st, guards)
                walk_body(st.body, guards)
                walk_body(getattr(st, "orelse", []) or [], guards)
                return
            if hasattr(ast, "Match") and isinstance(st, getattr(ast, "Match")):
                for c in st.cases:
                    walk_body(c.body, guards)
                return
            for target, kind, value in stores_in(st):
                if isinstance(target, ast.Name):
                    if target.id not in declared_global:
                        continue                    # rebinding a local
                elif not isinstance(target, (ast.Subscript, ast.Attribute)):
                    continue
                tt = norm_target(target)
                if kind == "aug":
                    add(st, target, "augmented")
                elif kind == "del":
                    add(st, target, "delete")
                else:
                    g = guarded(tt, guards)
                    if value is not None and tt in loads_of(value) and g is None:
                        add(st, target, "rmw")
                    elif g is not None:
                        add(st, target, "check_then_act", guard=g)
                    else:
                        add(st, target, "plain")
            for n in ast.walk(st):
                if isinstance(n, (ast.FunctionDef, ast.Lambda, ast.ClassDef)):
                    continue
            calls_in(st, st, guards)

        def calls_in(expr, st, guards):
            for n in ast.walk(expr):
                if isinstance(n, ast.Call):
                    f = n.func
                    cname = dotted(f)
                    if cname:
                        self.calls.setdefault(fi.qual, set()).add(cname)
                    if isinstance(f, ast.Attribute) and f.attr in MUTATORS and f.attr not in self.pkg_methods:
                        b = base_of_expr(f.value)
                        if b[0] in ("self", "global", "default", "classattr", "param"):
                            sites.append({"module": self.module, "file": self.module + ".py", "func": fi.qual, "line": n.lineno,
                                          "end_line": getattr(st, "end_lineno", n.lineno), "base": b[0], "base_name": b[1],
                                          "target": norm_target(f.value),
                                          "pattern": {"setdefault": "check_then_act", "add": "idem_store"}.get(f.attr, "mutcall"),
                                          "guard_line": None, "detail": f.attr,
                                          "key": (n.args[0].value if n.args and isinstance(n.args[0], ast.Constant) and isinstance(n.args[0].value, str) else None)})
                    if cname in PROCESS_GLOBAL_CALLS:
                        sites.append({"module": self.module, "file": self.module + ".py", "func": fi.qual, "line": n.lineno,
                                      "end_line": getattr(st, "end_lineno", n.lineno), "base": "global", "base_name": "process:" + cname,
                                      "target": cname, "pattern": "set_restore" if cname.endswith(("catch_warnings", "option_context")) else "mutcall",
                                      "guard_line": None, "detail": cname})
                    if isinstance(f, ast.Name) and f.id in ("setattr", "delattr") and n.args:
                        b = base_of_expr(n.args[0])
                        key = unparse(n.args[1]) if len(n.args) > 1 else "?"
                        if len(n.args) > 1 and isinstance(n.args[1], ast.Constant):
                            key = str(n.args[1].value)
                        tt = "%s.%s" % (norm_target(n.args[0]), key)
                        g = guarded(tt, guards)
                        sites.append({"module": self.module, "file": self.module + ".py", "func": fi.qual, "line": n.lineno,
                                      "end_line": getattr(st, "end_lineno", n.lineno), "base": b[0], "base_name": b[1], "target": tt,
                                      "pattern": ("check_then_act" if g is not None else "plain") if f.id == "setattr" else "delete",
                                      "guard_line": g, "detail": f.id})

        walk_body(node.body, [])

        # set_restore / multi_store: per target text, over the plain / check_then_act stores of this function in line order
        by_t = {}
        for s in sites:
            if s["pattern"] in ("plain", "check_then_act", "rmw"):
                by_t.setdefault(s["target"], []).append(s)
        saved = {}          # local name -> slot it saved
        for nm, vals in local_assigned.items():
            for v in vals:
                if v is not None:
                    saved.setdefault(nm, set()).add(norm_target(v))
        for tt, ss in by_t.items():
            if len(ss) < 2:
                continue
            ss.sort(key=lambda s: s["line"])
            # is one of the later stores `T = n` with n a local that was loaded from T ?
            restore = False
            for n in self._own_nodes(node):
                if isinstance(n, ast.Assign) and isinstance(n.value, ast.Name) and any(norm_target(t) == tt for t in n.targets):
                    if tt in saved.get(n.value.id, ()):
                        restore = True
            sequential = self._sequential(node, [s["line"] for s in ss])
            if restore:
                for s in ss:
                    s["pattern"] = "set_restore"
            elif sequential:
                for s in ss:
                    s["pattern"] = "multi_store"
        self.sites.extend(sites)

    def _sequential(self, func, lines):
        """True when two of the given statement lines can execute one after the other on one straight path: the block
        holding the earlier one also holds (directly or in a nested block of a LATER statement) the other one, with no
        return / raise / break / continue directly in that block between them"""
        paths = {}

        def walk(body, path):
            for idx, st in enumerate(body):
                a, z = st.lineno, getattr(st, "end_lineno", st.lineno)
                for ln in lines:
                    if a <= ln <= z and ln not in paths:
                        simple = not isinstance(st, (ast.If, ast.For, ast.While, ast.Try, ast.With, ast.FunctionDef, ast.ClassDef))
                        if simple:
                            paths[ln] = path + [(id(body), idx)]
                if isinstance(st, (ast.FunctionDef, ast.AsyncFunctionDef, ast.ClassDef)):
                    continue
                for fld in ("body", "orelse", "finalbody"):
                    sub = getattr(st, fld, None)
                    if isinstance(sub, list):
                        walk(sub, path + [(id(body), idx)])
                for h in getattr(st, "handlers", []) or []:
                    walk(h.body, path + [(id(body), idx)])
        bodies = {}

        def index(body):
            bodies[id(body)] = body
            for st in body:
                if isinstance(st, (ast.FunctionDef, ast.AsyncFunctionDef, ast.ClassDef)):
                    continue
                for fld in ("body", "orelse", "finalbody"):
                    sub = getattr(st, fld, None)
                    if isinstance(sub, list):
                        index(sub)
                for h in getattr(st, "handlers", []) or []:
                    index(h.body)
        walk(func.body, [])
        index(func.body)
        ls = sorted(l for l in lines if l in paths)
        for i, l1 in enumerate(ls):
            for l2 in ls[i + 1:]:
                p1, p2 = paths[l1], paths[l2]
                blk, i1 = p1[-1]
                hit = [q for q in p2 if q[0] == blk]
                if not hit:
                    continue
                i2 = hit[0][1]
                if i2 < i1:
                    continue
                if i2 == i1 and p1 != p2:
                    continue
                between = bodies[blk][i1 + 1:i2]
                if any(isinstance(x, (ast.Return, ast.Raise, ast.Break, ast.Continue)) for x in between):
                    continue
                return True
        return False

    def _module_sites(self):
        """stores executed at import time (module body): initialisation, before any thread can see the module"""
        fi = FuncInfo(self.module, "<module>", ast.Module(body=[s for s in self.tree.body
                                                               if not isinstance(s, (ast.FunctionDef, ast.ClassDef))], type_ignores=[]),
                      None, [], {})
        before = len(self.sites)
        self._function(fi)
        for s in self.sites[before:]:
            s["import_time"] = True


def scan_package(repo):
    pkg = os.path.join(repo, "fastparquet")
    files = [f for f in sorted(os.listdir(pkg)) if f.endswith(".py")]
    mods = [f[:-3] for f in files]
    locations, sites, calls, funcs = [], [], {}, []
    trees = {f: ast.parse(open(os.path.join(pkg, f)).read(), filename=f) for f in files}
    pkg_methods = set()
    for t in trees.values():
        for n in ast.walk(t):
            if isinstance(n, ast.ClassDef):
                pkg_methods |= {m.name for m in n.body if isinstance(m, (ast.FunctionDef, ast.AsyncFunctionDef))}
    for f in files:
        tree = trees[f]
        ms = ModuleScan(f[:-3], tree, set(mods), pkg_methods)
        ms.scan()
        locations += ms.locations
        sites += ms.sites
        for k, v in ms.calls.items():
            calls["%s:%s" % (f[:-3], k)] = sorted(v)
        funcs += ["%s:%s" % (f[:-3], fi.qual) for fi in ms.funcs]
    # native modules (.pyx): no Python ast - module-level bindings by a line scan (names only; their state is enumerated
    # from the live module by the monitor)
    import re
    for f in sorted(os.listdir(pkg)):
        if f.endswith(".pyx"):
            for ln, line in enumerate(open(os.path.join(pkg, f)).read().split("\n"), 1):
                m = re.match(r"^(?:cdef\s+[\w\[\]:, ]+?\s+)?([A-Za-z_]\w*)\s*=[^=]", line)
                if m and not line.startswith(("def ", "cpdef ", "class ", "import ", "from ")):
                    locations.append({"kind": "module_global", "module": f[:-4], "name": m.group(1), "line": ln, "valkind": "pyx"})
    for i, l in enumerate(locations):
        l["id"] = i
    for i, s in enumerate(sites):
        s["id"] = i
        s.setdefault("import_time", False)
    return {"locations": locations, "sites": sites, "calls": calls, "funcs": funcs, "files": files}


# ---------------------------------------------------------------------------------------------
# Gallina text
# ---------------------------------------------------------------------------------------------

def _cstr(s):
    return '"' + str(s).replace('"', "'")[:120] + '"'


PAT_CTOR = {"check_then_act": "PCheckThenAct", "idem_store": "PIdemStore", "augmented": "PAugmented", "rmw": "PRmw",
            "set_restore": "PSetRestore", "multi_store": "PMultiStore", "delete": "PDelete", "mutcall": "PMutCall", "plain": "PPlain"}
BASE_CTOR = {"self": "BSelf", "global": "BGlobal", "default": "BDefault", "classattr": "BClassAttr", "param": "BParam",
             "fresh": "BFresh", "local": "BLocal"}
LK_CTOR = {"module_global": "LModGlobal", "class_attr": "LClassAttr", "default_arg": "LDefaultArg", "global_stmt": "LGlobalStmt",
           "memo_decorator": "LMemoDeco", "func_attr": "LFuncAttr", "closure_cell": "LClosure"}


def to_gallina(inv):
    out = ["(* GENERATED by translators/sharedstate.py from the fastparquet sources of this run - do not edit *)",
           "From Coq Require Import NArith List String Bool.",
           "From Pq Require Import Conc.Footprint.",
           "Import ListNotations.",
           "Open Scope string_scope.",
           "",
           "Definition inv_locations : list loc_decl :=", "  ["]
    rows = []
    for l in inv["locations"]:
        rows.append("   mkLoc %d%%N %s %s" % (l["id"], LK_CTOR[l["kind"]], _cstr("%s/%s" % (l["module"], l["name"]))))
    out.append(";\n".join(rows))
    out.append("  ].")
    out.append("")
    out.append("Definition inv_sites : list site_decl :=")
    out.append("  [")
    rows = []
    for s in inv["sites"]:
        rows.append("   mkSite %d%%N %s %d%%N %d%%N %s %s %s" % (
            s["id"], _cstr(s["file"]), s["line"], s["end_line"], PAT_CTOR[s["pattern"]], BASE_CTOR[s["base"]],
            "true" if s["import_time"] else "false"))
    out.append(";\n".join(rows))
    out.append("  ].")
    out.append("")
    out.append("Definition inv_memo_keys : list memo_key :=")
    out.append("  [" + "; ".join("mkMemoKey %d%%N %s %s" % (c["line"], "true" if c["names_ok"] else "false", "true" if c["key_pure"] else "false")
                             for c in inv.get("memo_keys", [])) + "].")
    out.append("")
    return "\n".join(out) + "\n"


def run(repo, gen_dir):
    """-> {"status": "ok"|"translator_fallback", "inventory": {...}, "file": path of SharedInv.v}"""
    try:
        inv = scan_package(repo)
        inv["memo_keys"] = memo_key_clauses(repo)
        text = to_gallina(inv)
        os.makedirs(gen_dir, exist_ok=True)
        path = os.path.join(gen_dir, "SharedInv.v")
        with open(path, "w") as f:
            f.write(text)
        return {"status": "ok", "inventory": inv, "file": path}
    except Exception as e:          # noqa  (fail closed)
        import traceback
        return {"status": "translator_fallback", "reason": "%s: %s" % (type(e).__name__, e), "tb": traceback.format_exc()[-1500:]}


if __name__ == "__main__":
    import json
    import sys
    inv = scan_package(sys.argv[1])
    if len(sys.argv) > 2 and sys.argv[2] == "sites":
        for s in inv["sites"]:
            if s["base"] in ("self", "global", "default", "classattr", "param") and not s["import_time"]:
                print("%-18s %-34s %4d %-14s %-9s %-28s %s" % (s["file"], s["func"][:34], s["line"], s["pattern"], s["base"], s["base_name"][:28], s["target"][:50]))
    else:
        for l in inv["locations"]:
            print("%-15s %-18s %-40s %4d %s" % (l["kind"], l["module"], l["name"][:40], l["line"], l["valkind"]))
    print(len(inv["locations"]), "locations", len(inv["sites"]), "sites", file=sys.stderr)


# ---------------------------------------------------------------------------------------------
# native modules: module-level C state of the .pyx sources and of the generated .c
# ---------------------------------------------------------------------------------------------

def native_state(repo):
    """Module-level state of the Cython modules, from the .pyx source and the generated .c:
       * every module-level `cdef <type> name [= ...]` and plain `name = ...` of the .pyx, with the statements INSIDE functions
         of the .pyx that store into it (rebinding, item store, mutating method call);
       * its C symbol in the .c (`static <type> __pyx_v_<module>_<name>`) with the number of C statements that store into it
         outside the module-init function (`__pyx_pymod_exec_<mod>`) - 0 means: written at import time only = a constant;
       * every other `static` array/buffer of the .c that is not Cython's own (`__pyx_`/`__Pyx` prefix, const string table).
    -> {"globals": [...], "foreign_static_buffers": [...]}"""
    import re
    pkg = os.path.join(repo, "fastparquet")
    out, foreign = [], []
    for f in sorted(os.listdir(pkg)):
        if not f.endswith(".pyx"):
            continue
        mod = f[:-4]
        lines = open(os.path.join(pkg, f)).read().split("\n")
        names = []
        for ln, line in enumerate(lines, 1):
            m = re.match(r"^cdef\s+(?!class\b|extern\b|inline\b|struct\b|enum\b|packed\b)([\w\[\]:\*, ]+?)\s+([A-Za-z_]\w*)\s*(=.*)?$", line)
            if m and "(" not in line.split("=")[0]:
                names.append({"module": mod, "name": m.group(2), "ctype": m.group(1).strip(), "line": ln, "cdef": True})
                continue
            m = re.match(r"^([A-Za-z_]\w*)\s*=[^=]", line)
            if m:
                names.append({"module": mod, "name": m.group(1), "ctype": "object", "line": ln, "cdef": False})
        for g in names:
            nm = re.escape(g["name"])
            pat = re.compile(r"^\s+(?:global\s+.*\b%s\b|%s\s*(?:\[[^\]]*\])?\s*(?:[-+*/|&^]|//|<<|>>)?=[^=]|%s\.(?:%s)\(|del\s+%s\b)" % (
                nm, nm, nm, "|".join(sorted(MUTATORS)), nm))
            g["pyx_stores_in_functions"] = [i for i, l in enumerate(lines, 1) if pat.match(l) and i != g["line"]]
        cpath = os.path.join(pkg, mod + ".c")
        if os.path.exists(cpath):
            ctext = open(cpath, errors="replace").read().split("\n")
            # which C function every line belongs to (import-time functions: module exec and Cython's modinit helpers)
            cur, owner = None, []
            for l in ctext:
                m = re.match(r"^(?:static\s+)?[\w \*]+?\b(\w+)\s*\([^;]*$", l)
                if m and not l.startswith((" ", "\t", "#", "/")) and not l.rstrip().endswith(";"):
                    cur = m.group(1)
                owner.append(cur)
            is_init = lambda fn: fn is not None and (fn.startswith("__pyx_pymod_exec") or fn.startswith("__Pyx_modinit") or fn.startswith("__pyx_pymod_create"))
            for g in names:
                sym = None
                for l in ctext:
                    m = re.match(r"^static\s+.*?\b(__pyx_v_\d+fastparquet_\d+%s_%s)\b" % (mod, re.escape(g["name"])), l)
                    if m:
                        sym = m.group(1)
                        break
                g["c_symbol"] = sym
                if sym is None:
                    g["c_stores_outside_init"] = None       # a Python-level module attribute (in the module dict)
                    continue
                st = re.compile(r"(?:\b%s\s*=[^=]|(?:__Pyx_X?DECREF_SET|PyDict_SetItem|PyObject_SetItem|PyDict_DelItem|PyObject_DelItem|PyDict_Clear|__Pyx_PyDict_SetDefault|PyDict_Update|PyDict_Merge|PyDict_Pop|_PyDict_Pop)\s*\(\s*%s\b)" % (sym, sym))
                hits = [(i, owner[i]) for i, l in enumerate(ctext) if st.search(l) and not l.startswith("static ")]
                g["c_stores_outside_init"] = sum(1 for i, fn in hits if not is_init(fn))
                g["c_stores_in_init"] = sum(1 for i, fn in hits if is_init(fn))
                g["c_store_functions"] = sorted(set(str(fn) for i, fn in hits))
            for i, l in enumerate(ctext, 1):
                m = re.match(r"^static\s+(?!const\b)([\w \*]+?)\s+(\w+)\s*\[[^\]]*\]\s*(=|;)", l)
                if m and not m.group(2).startswith(("__pyx_", "__Pyx", "cstring")):
                    foreign.append({"module": mod, "name": m.group(2), "line": i})
        out += names
    return {"globals": out, "foreign_static_buffers": foreign}


# ---------------------------------------------------------------------------------------------
# "the stored value is a function of the key": a regenerated clause for memo stores into keyed containers
# ---------------------------------------------------------------------------------------------

KEY_IMPURE_CALLS = {"id", "repr", "str", "hash", "format"}


def memo_key_clauses(repo):
    """For every store `C[key] = value` (or C.setdefault(key, value)) into a container C that outlives the call (module global,
    default argument, class attribute, attribute of self / of a parameter) under an absence test (check-then-act), decide from
    the source whether the key DETERMINES the value:
       deps(value) = the names that are free in the guarded block (used there, bound outside it)
       deps(key)   = the names free in the key expression (a local key variable is expanded to its defining expression)
       owner       = the object the container is an attribute of (a cache kept ON a handle is implicitly keyed by the handle)
       names_ok    = deps(value) - deps(key) - owner - module-level names (functions, classes, imports, constants) == {}
       key_pure    = the key expression calls none of id / repr / str / hash (identities and renderings do not identify a value)
    -> [{"file","line","func","container","names_ok","key_pure","extra_deps":[...],"impure":[...]}]"""
    pkg = os.path.join(repo, "fastparquet")
    out = []
    for f in sorted(os.listdir(pkg)):
        if not f.endswith(".py"):
            continue
        tree = ast.parse(open(os.path.join(pkg, f)).read(), filename=f)
        module_names = set()
        for st in tree.body:
            if isinstance(st, (ast.Import, ast.ImportFrom)):
                module_names |= {(a.asname or a.name).split(".")[0] for a in st.names}
            elif isinstance(st, (ast.FunctionDef, ast.ClassDef)):
                module_names.add(st.name)
            elif isinstance(st, (ast.Assign, ast.AnnAssign)):
                for t in (st.targets if isinstance(st, ast.Assign) else [st.target]):
                    if isinstance(t, ast.Name):
                        module_names.add(t.id)
        import builtins
        module_names |= set(dir(builtins))
        for fn in ast.walk(tree):
            if not isinstance(fn, (ast.FunctionDef, ast.AsyncFunctionDef)):
                continue
            params = {a.arg for a in fn.args.args + fn.args.kwonlyargs + fn.args.posonlyargs}
            assigns = {}
            for n in ast.walk(fn):
                if isinstance(n, ast.Assign) and len(n.targets) == 1 and isinstance(n.targets[0], ast.Name):
                    assigns.setdefault(n.targets[0].id, n.value)

            def free_names(nodes, bound=()):
                used, bound_here = set(), set(bound)
                for node in nodes:
                    for n in ast.walk(node):
                        if isinstance(n, ast.Name):
                            (bound_here if isinstance(n.ctx, ast.Store) else used).add(n.id)
                        elif isinstance(n, ast.arg):
                            bound_here.add(n.arg)
                return used - bound_here

            def key_deps(kexpr, depth=0):
                names = set()
                impure = set()
                for n in ast.walk(kexpr):
                    if isinstance(n, ast.Call) and isinstance(n.func, ast.Name) and n.func.id in KEY_IMPURE_CALLS:
                        impure.add(n.func.id)
                    if isinstance(n, ast.Name) and isinstance(n.ctx, ast.Load):
                        if n.id in assigns and n.id not in params and depth < 3:
                            d2, i2 = key_deps(assigns[n.id], depth + 1)
                            names |= d2 | {n.id}
                            impure |= i2
                        else:
                            names.add(n.id)
                return names, impure

            def owner_of(cont):
                r = root_and_chain(cont)
                return {r} if r else set()

            def container_kind(cont, depth=0):
                r = root_and_chain(cont)
                if r is None:
                    return None
                if r in ("self",) or r in params:
                    # an ATTRIBUTE of self / of a parameter (x.cache[key]); a bare parameter container is the caller's
                    n_, has_attr = cont, False
                    while isinstance(n_, (ast.Subscript, ast.Attribute, ast.Call)):
                        if isinstance(n_, ast.Attribute):
                            has_attr = True
                        n_ = n_.value if not isinstance(n_, ast.Call) else (n_.func if isinstance(n_.func, ast.Attribute) else ast.Name(id="?", ctx=ast.Load()))
                    return "object" if has_attr else None
                if r in module_names and r not in dir(builtins):
                    return "global"
                if r in assigns:            # local alias of something longer-lived (d = pf.__dict__.setdefault(...))
                    v = assigns[r]
                    if depth < 3 and not isinstance(v, (ast.Dict, ast.List)) and container_kind(v, depth + 1) is not None:
                        return "alias"
                return None

            def visit(body, guards):
                for st in body:
                    if isinstance(st, (ast.FunctionDef, ast.ClassDef)):
                        continue
                    if isinstance(st, ast.If):
                        visit(st.body, guards + [st])
                        visit(st.orelse, guards + [st])
                        continue
                    if isinstance(st, ast.Try):
                        visit(st.body, guards)
                        for h in st.handlers:
                            visit(h.body, guards + [st])
                        visit(st.orelse, guards)
                        visit(st.finalbody, guards)
                        continue
                    if isinstance(st, (ast.For, ast.While, ast.With)):
                        visit(st.body, guards)
                        continue
                    targets = []
                    if isinstance(st, ast.Assign):
                        for t in st.targets:
                            for e in ast.walk(t):
                                if isinstance(e, ast.Subscript) and isinstance(e.ctx, ast.Store) and not (
                                        isinstance(e.slice, ast.Constant)) and not isinstance(e.slice, ast.Slice):
                                    targets.append((e.value, e.slice, st.value))
                    for n in ast.walk(st):
                        if isinstance(n, ast.Call) and isinstance(n.func, ast.Attribute) and n.func.attr == "setdefault" and len(n.args) == 2 \
                                and not isinstance(n.args[0], ast.Constant):
                            targets.append((n.func.value, n.args[0], n.args[1]))
                    for cont, kexpr, vexpr in targets:
                        kind = container_kind(cont)
                        if kind is None or not guards:
                            continue
                        g = guards[-1]
                        block = g.body if isinstance(g, ast.If) else [x for h in g.handlers for x in h.body]
                        # the guarded block computes the value: its free names are what the value depends on
                        vdeps = set()
                        for nm_ in free_names(block):
                            # a local computed before the block counts through what IT was computed from
                            d_, _ = key_deps(ast.Name(id=nm_, ctx=ast.Load()))
                            vdeps |= (d_ - {nm_}) if (nm_ in assigns and nm_ not in params) else {nm_}
                        kd, impure = key_deps(kexpr)
                        own = owner_of(cont)
                        if kind == "alias":
                            r = root_and_chain(cont)
                            own |= {r} | owner_of(assigns[r])
                        cname = unparse(cont)
                        extra = sorted(n_ for n_ in vdeps - kd - own - module_names - {root_and_chain(cont) or ""}
                                       if n_ not in ("self",) or "self" not in own)
                        out.append({"file": f, "line": st.lineno, "func": fn.name, "container": cname, "container_kind": kind,
                                    "key": unparse(kexpr)[:80], "names_ok": not extra, "key_pure": not impure,
                                    "extra_deps": extra[:8], "impure": sorted(impure)})
            visit(fn.body, [])
    return out
