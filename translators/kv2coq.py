#!/usr/bin/env python3
"""kv2coq: fastparquet.util.update_custom_metadata (Python ast) -> Gallina (C16).

Supported subset - anything else fails closed (exit status 2, source location on stderr):
  kvm = (<..>.key_value_metadata if isinstance(obj, ThriftObject) else <..>.key_value_metadata)     the entry list (parameter)
  if kvm is None: kvm = []
  keys = [item.key for item in kvm]                                                            spare key list
  for key, value in custom_metadata.items(): <body>                                            fold over the update dict
  if isinstance(obj, ThriftObject): obj.key_value_metadata = kvm      (or unconditional)       the result
body statements:  name = expr | if/elif/else | del L[i] | L[i] = expr | L.append(expr) | pass
conditions:       X is None | X is not None (X a name: becomes a match that rebinds X to the payload) | a in L | not <cond>
expressions:      names, ensure_bytes(e), L.index(e), parquet_thrift.KeyValue(key=e[, value=e])
Python lists are Gallina lists, a KeyValue is the pair (key, optional value), the update dict a list of (pstr, option pstr);
an operation that raises (index of an absent item, del / assignment out of range) yields None.
Output: Definition loop_body (st) (kv) : option st,  Definition update_custom_metadata kvm0 custom_metadata : option (list ...).
"""
import ast
import sys


class Unsupported(Exception):
    pass


def fail(node, msg):
    raise Unsupported("util.py:%d:%d: %s" % (getattr(node, "lineno", 0), getattr(node, "col_offset", 0), msg))


def is_call(e, name):
    return isinstance(e, ast.Call) and ((isinstance(e.func, ast.Name) and e.func.id == name) or
                                        (isinstance(e.func, ast.Attribute) and e.func.attr == name))


def expr(e, env):
    """pure expression -> Gallina term"""
    if isinstance(e, ast.Name):
        if e.id not in env:
            fail(e, "unknown name %s" % e.id)
        return e.id
    if is_call(e, "ensure_bytes") and len(e.args) == 1 and not e.keywords:
        return "(ensure_bytes %s)" % expr(e.args[0], env)
    if is_call(e, "KeyValue") and not e.args:
        kw = {k.arg: k.value for k in e.keywords}
        if set(kw) == {"key", "value"}:
            return "(%s, Some %s)" % (expr(kw["key"], env), expr(kw["value"], env))
        if set(kw) == {"key"}:
            return "(%s, None)" % expr(kw["key"], env)
    fail(e, "unsupported expression %s" % ast.dump(e)[:90])


def block(stmts, env, state, k):
    """statements -> Gallina term of type option <state>; k = the continuation's text (a function of the names in scope)"""
    if not stmts:
        return k(env)
    s, rest = stmts[0], stmts[1:]

    def cont(env2):
        return block(rest, env2, state, k)
    if isinstance(s, ast.Pass) or (isinstance(s, ast.Expr) and isinstance(s.value, ast.Constant)):
        return cont(env)        # `pass` / a bare constant: a statement that does nothing (a deleted statement is a CHANGED function, not an unknown one)
    if isinstance(s, ast.Assign) and len(s.targets) == 1:
        t, v = s.targets[0], s.value
        if isinstance(t, ast.Name):
            if is_call(v, "index") and isinstance(v.func, ast.Attribute) and len(v.args) == 1:
                lst = expr(v.func.value, env)
                return "match py_index bytes_eqb %s %s with None => None | Some %s => %s end" % (
                    expr(v.args[0], env), lst, t.id, cont(env | {t.id}))
            return "let %s := %s in %s" % (t.id, expr(v, env), cont(env | {t.id}))
        if isinstance(t, ast.Subscript) and isinstance(t.value, ast.Name) and t.value.id in state:
            L = t.value.id
            return "match py_setitem %s %s %s with None => None | Some %s => %s end" % (
                expr(t.slice, env), expr(v, env), L, L, cont(env))
        fail(s, "unsupported assignment target")
    if isinstance(s, ast.Delete) and len(s.targets) == 1:
        t = s.targets[0]
        if isinstance(t, ast.Subscript) and isinstance(t.value, ast.Name) and t.value.id in state:
            L = t.value.id
            return "match py_del %s %s with None => None | Some %s => %s end" % (expr(t.slice, env), L, L, cont(env))
        fail(s, "unsupported del")
    if isinstance(s, ast.Expr) and is_call(s.value, "append") and isinstance(s.value.func.value, ast.Name) \
            and s.value.func.value.id in state and len(s.value.args) == 1:
        L = s.value.func.value.id
        return "let %s := py_append %s %s in %s" % (L, expr(s.value.args[0], env), L, cont(env))
    if isinstance(s, ast.If):
        return cond(s.test, env, lambda e2: block(s.body + rest, e2, state, k), lambda e2: block(s.orelse + rest, e2, state, k))
    fail(s, "unsupported statement %s" % type(s).__name__)


def cond(t, env, yes, no):
    if isinstance(t, ast.UnaryOp) and isinstance(t.op, ast.Not):
        return cond(t.operand, env, no, yes)
    if isinstance(t, ast.Compare) and len(t.ops) == 1:
        op, l, r = t.ops[0], t.left, t.comparators[0]
        if isinstance(op, (ast.Is, ast.IsNot)) and isinstance(r, ast.Constant) and r.value is None and isinstance(l, ast.Name):
            if l.id not in env:
                fail(l, "unknown name %s" % l.id)
            a, b = (yes, no) if isinstance(op, ast.Is) else (no, yes)
            # in the not-None branch the name is rebound to the payload
            return "match %s with None => %s | Some %s => %s end" % (l.id, a(env), l.id, b(env))
        if isinstance(op, (ast.In, ast.NotIn)):
            a, b = (yes, no) if isinstance(op, ast.In) else (no, yes)
            return "if py_in bytes_eqb %s %s then %s else %s" % (expr(l, env), expr(r, env), a(env), b(env))
    fail(t, "unsupported condition %s" % ast.dump(t)[:90])


def translate(path):
    src = open(path).read()
    mod = ast.parse(src)
    fn = [n for n in mod.body if isinstance(n, ast.FunctionDef) and n.name == "update_custom_metadata"]
    if len(fn) != 1:
        raise Unsupported("util.py: update_custom_metadata not found")
    fn = fn[0]
    body = [s for s in fn.body if not (isinstance(s, ast.Expr) and isinstance(s.value, ast.Constant))]
    if len(body) < 4:
        fail(fn, "unexpected shape")
    # S1: the entry list
    s1 = body[0]
    if not (isinstance(s1, ast.Assign) and isinstance(s1.targets[0], ast.Name) and "key_value_metadata" in ast.dump(s1.value)
            and not any(isinstance(n, ast.Call) and not is_call(n, "isinstance") for n in ast.walk(s1.value))):
        fail(s1, "first statement must bind the key_value_metadata list")
    kvm = s1.targets[0].id
    i = 1
    pre = "  let %s := kvm0 in\n" % kvm
    # S2: None -> []
    s2 = body[i]
    if isinstance(s2, ast.If) and isinstance(s2.test, ast.Compare) and isinstance(s2.test.ops[0], ast.Is) \
            and isinstance(s2.test.left, ast.Name) and s2.test.left.id == kvm and not s2.orelse and len(s2.body) == 1 \
            and isinstance(s2.body[0], ast.Assign) and isinstance(s2.body[0].value, ast.List) and not s2.body[0].value.elts \
            and s2.body[0].targets[0].id == kvm:
        pre += "  let %s := match %s with None => [] | Some l => l end in\n" % (kvm, kvm)
        i += 1
    else:
        fail(s2, "expected `if %s is None: %s = []`" % (kvm, kvm))
    # S3: spare key list
    s3 = body[i]
    if isinstance(s3, ast.Assign) and isinstance(s3.targets[0], ast.Name) and isinstance(s3.value, ast.ListComp) \
            and len(s3.value.generators) == 1 and isinstance(s3.value.generators[0].iter, ast.Name) and s3.value.generators[0].iter.id == kvm \
            and not s3.value.generators[0].ifs and isinstance(s3.value.elt, ast.Attribute) and s3.value.elt.attr == "key" \
            and isinstance(s3.value.elt.value, ast.Name) and s3.value.elt.value.id == s3.value.generators[0].target.id:
        keys = s3.targets[0].id
        pre += "  let %s := map fst %s in\n" % (keys, kvm)
        i += 1
    else:
        fail(s3, "expected the spare key list `[item.key for item in %s]`" % kvm)
    # S4: the loop
    s4 = body[i]
    if not (isinstance(s4, ast.For) and isinstance(s4.target, ast.Tuple) and len(s4.target.elts) == 2 and not s4.orelse
            and is_call(s4.iter, "items") and isinstance(s4.iter.func.value, ast.Name) and s4.iter.func.value.id == fn.args.args[1].arg):
        fail(s4, "expected `for key, value in %s.items():`" % fn.args.args[1].arg)
    kname, vname = s4.target.elts[0].id, s4.target.elts[1].id
    state = [kvm, keys]
    st = "(%s, %s)" % (kvm, keys)
    lb = block(s4.body, {kvm, keys, kname, vname}, state, lambda env: "Some %s" % st)
    i += 1
    # S5: the result goes back into the object
    tail = body[i:]
    ok = False
    if len(tail) == 1:
        t = tail[0]
        branches = [t.body] + ([t.orelse] if t.orelse else []) if (isinstance(t, ast.If) and is_call(t.test, "isinstance")) else [[t]]
        def stores(a):
            return isinstance(a, ast.Assign) and isinstance(a.targets[0], ast.Attribute) and a.targets[0].attr == "key_value_metadata" \
                and isinstance(a.value, ast.Name) and a.value.id == kvm

        def cache_reset(a):      # `obj._kvm = None`: the cached read-side mapping is dropped (C06/C16 read it again)
            return isinstance(a, ast.Assign) and isinstance(a.targets[0], ast.Attribute) and isinstance(a.value, ast.Constant)
        ok = all(sum(1 for a in inner if stores(a)) == 1 and all(stores(a) or cache_reset(a) for a in inner) for inner in branches)
    if not ok:
        fail(tail[0] if tail else fn, "expected `obj.key_value_metadata = %s` as the last statement" % kvm)
    ty = "(list (bytes * option bytes) * list bytes)"
    out = "(* GENERATED by translators/kv2coq.py from fastparquet/util.py (update_custom_metadata); do not edit. *)\n"
    out += "From Coq Require Import NArith List Bool.\nFrom Pq Require Import Base.Bytes Impl.KV Impl.KVRead Impl.PyList.\nImport ListNotations.\n\n"
    out += "Definition loop_body (st : %s) (kv : pstr * option pstr) : option %s :=\n" % (ty, ty)
    out += "  let '%s := st in let '(%s, %s) := kv in\n  %s.\n\n" % (st, kname, vname, lb)
    out += "Definition update_custom_metadata (kvm0 : option (list (bytes * option bytes))) (custom_metadata : list (pstr * option pstr))\n"
    out += "  : option (list (bytes * option bytes)) :=\n" + pre
    out += "  match fold_left (fun acc kv => match acc with None => None | Some st => loop_body st kv end) custom_metadata (Some %s) with\n" % st
    out += "  | None => None\n  | Some %s => Some %s\n  end.\n" % (st, kvm)
    return out


if __name__ == "__main__":
    try:
        sys.stdout.write(translate(sys.argv[1]))
    except Unsupported as e:
        sys.stderr.write(str(e) + "\n")
        sys.exit(2)
