#!/usr/bin/env python3
"""state2coq: inventory of MODULE-LEVEL state touched by the Python-level codec functions -> Gallina (C11).

  usage: state2coq.py <fastparquet/encoding.py> <fastparquet/writer.py>

A codec function must compute its result from its arguments: a value it returns may not be (a view of) a buffer that
outlives the call.  This translator never interprets the function bodies - it only takes stock (so it cannot fail on an
unfamiliar statement): for every codec function
    encoding.py: every top-level function;   writer.py: encode_plain, encode_dict, make_definitions, convert, time_shift
it lists
    global_writes     (function, name) for every `global name` declaration and every store / augmented store / del /
                      subscript store / mutating method call (append, extend, update, pop, clear, resize, fill, sort,
                      setdefault, insert, remove) on a module-level name
    mutable_state     (function, name) for every use of a module-level name bound to a mutable container or array
                      (list / dict / set display or comprehension, bytearray / list / dict / set / np.empty / np.zeros /
                      ... call) - EXCEPT read-only use of a list / dict / set table that no function of the module ever
                      writes (e.g. DECODE_TYPEMAP, the `encode` table); a module-level ARRAY / bytearray (any np.* call) always
                      counts: native code writes through aliases
    thread_locals     names bound to threading.local() at module level
"""
import ast
import sys

MUTATORS = {"append", "extend", "update", "pop", "clear", "resize", "fill", "sort", "setdefault", "insert", "remove", "popitem",
            "add", "discard", "put", "itemset"}
MUTABLE_CALLS = {"bytearray", "list", "dict", "set", "np.empty", "np.zeros", "np.ones", "np.full", "np.array", "np.arange", "memoryview",
                 "np.empty_like", "np.zeros_like", "defaultdict", "collections.defaultdict", "OrderedDict", "np.frombuffer"}
WRITER_FUNCS = ["encode_plain", "encode_dict", "make_definitions", "convert", "time_shift"]


def module_data(tree):
    """module-level names -> 'mutable' | 'local' (threading.local) | 'const'"""
    out = {}
    for n in tree.body:
        targets = []
        if isinstance(n, ast.Assign):
            targets, v = n.targets, n.value
        elif isinstance(n, ast.AnnAssign) and n.value is not None:
            targets, v = [n.target], n.value
        else:
            continue
        kind = "const"
        if isinstance(v, (ast.List, ast.Dict, ast.Set, ast.ListComp, ast.DictComp, ast.SetComp)):
            kind = "mutable"
        elif isinstance(v, ast.Call):
            f = ast.unparse(v.func)
            if f in ("np.empty", "np.zeros", "np.ones", "np.full", "np.array", "np.arange", "np.empty_like", "np.zeros_like", "np.frombuffer",
                     "np.ndarray", "np.asarray", "bytearray", "memoryview"):
                kind = "array"          # a buffer: native code can write through any alias of it, no syntactic store needed
            elif f in MUTABLE_CALLS:
                kind = "mutable"
            elif f in ("threading.local", "local"):
                kind = "local"
        for t in targets:
            for x in ast.walk(t):
                if isinstance(x, ast.Name):
                    out[x.id] = kind
    return out


def local_names(fn):
    """names bound inside the function (parameters, assignments, loops, withs, comprehensions) minus `global` ones"""
    bound = {a.arg for a in fn.args.args + fn.args.kwonlyargs + fn.args.posonlyargs}
    if fn.args.vararg:
        bound.add(fn.args.vararg.arg)
    if fn.args.kwarg:
        bound.add(fn.args.kwarg.arg)
    glob = set()
    for n in ast.walk(fn):
        if isinstance(n, ast.Global):
            glob |= set(n.names)
        elif isinstance(n, ast.Name) and isinstance(n.ctx, (ast.Store, ast.Del)):
            bound.add(n.id)
    return bound - glob, glob


def inventory(tree, wanted, modname):
    data = module_data(tree)
    funcs = [n for n in tree.body if isinstance(n, ast.FunctionDef) and (wanted is None or n.name in wanted)]
    writes, uses = [], []
    for fn in funcs:
        loc, glob = local_names(fn)
        q = "%s.%s" % (modname, fn.name)
        for g in sorted(glob):
            writes.append((q, g))
        for n in ast.walk(fn):
            if isinstance(n, ast.Name) and n.id in data and n.id not in loc:
                if isinstance(n.ctx, (ast.Store, ast.Del)):
                    writes.append((q, n.id))
                elif data[n.id] in ("mutable", "local", "array"):
                    uses.append((q, n.id))
            # name[...] = / name.attr = / del name[...]
            if isinstance(n, (ast.Subscript, ast.Attribute)) and isinstance(n.ctx, (ast.Store, ast.Del)):
                b = n.value
                while isinstance(b, (ast.Subscript, ast.Attribute)):
                    b = b.value
                if isinstance(b, ast.Name) and b.id in data and b.id not in loc:
                    writes.append((q, b.id))
            if isinstance(n, ast.Call) and isinstance(n.func, ast.Attribute) and n.func.attr in MUTATORS:
                b = n.func.value
                while isinstance(b, (ast.Subscript, ast.Attribute)):
                    b = b.value
                if isinstance(b, ast.Name) and b.id in data and b.id not in loc:
                    writes.append((q, b.id))
    # any function of the module (not only the codec ones) writing a table makes it state
    written_anywhere = set()
    for fn in [n for n in ast.walk(tree) if isinstance(n, ast.FunctionDef)]:
        loc, glob = local_names(fn)
        written_anywhere |= glob
        for n in ast.walk(fn):
            if isinstance(n, (ast.Subscript, ast.Attribute)) and isinstance(n.ctx, (ast.Store, ast.Del)):
                b = n.value
                while isinstance(b, (ast.Subscript, ast.Attribute)):
                    b = b.value
                if isinstance(b, ast.Name) and b.id in data and b.id not in loc:
                    written_anywhere.add(b.id)
            if isinstance(n, ast.Call) and isinstance(n.func, ast.Attribute) and n.func.attr in MUTATORS:
                b = n.func.value
                while isinstance(b, (ast.Subscript, ast.Attribute)):
                    b = b.value
                if isinstance(b, ast.Name) and b.id in data and b.id not in loc:
                    written_anywhere.add(b.id)
    tables = sorted({nm for _, nm in uses if nm not in written_anywhere and data[nm] == "mutable"
                     and nm not in {w for _, w in writes}})
    state = sorted({(f, nm) for f, nm in uses if nm not in tables})
    tls = sorted(nm for nm, k in data.items() if k == "local")
    return [f.name for f in funcs], sorted(set(writes)), state, tables, tls


def coq_list(pairs):
    return "[" + "; ".join('("%s", "%s")' % p for p in pairs) + "]"


def main():
    if len(sys.argv) != 3:
        sys.stderr.write(__doc__)
        return 2
    try:
        e = inventory(ast.parse(open(sys.argv[1]).read()), None, "encoding")
        w = inventory(ast.parse(open(sys.argv[2]).read()), WRITER_FUNCS, "writer")
    except SyntaxError as ex:
        sys.stderr.write("state2coq: syntax error: %s\n" % ex)
        return 2
    out = ["(* generated by translators/state2coq.py from fastparquet/encoding.py and fastparquet/writer.py - do not edit *)",
           "From Coq Require Import List String.", "Import ListNotations.", "Open Scope string_scope.", "",
           "Definition codec_functions : list string := [%s]." % "; ".join('"%s"' % x for x in ["encoding." + f for f in e[0]] + ["writer." + f for f in w[0]]),
           "Definition global_writes : list (string * string) := %s." % coq_list(e[1] + w[1]),
           "Definition mutable_state_used : list (string * string) := %s." % coq_list(e[2] + w[2]),
           "Definition readonly_tables : list string := [%s]." % "; ".join('"%s"' % x for x in e[3] + w[3]),
           "Definition thread_locals : list string := [%s]." % "; ".join('"%s"' % x for x in e[4] + w[4]), ""]
    sys.stdout.write("\n".join(out))
    return 0


if __name__ == "__main__":
    sys.exit(main())
