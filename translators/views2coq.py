#!/usr/bin/env python3
"""views2coq: inventory of LONG-LIVED buffers of the reader modules and of the functions through which they escape (C03).

A page reader may hand out views (np.frombuffer, .view, slices) of the buffer it decoded into; read_col keeps the dictionary
of a chunk across all its data pages.  That is sound as long as every such buffer is allocated per call.  It stops being sound
when a buffer lives at module level (a global array, a threading.local slot, a cache dict) and is written again by a later call.

For each module given on the command line (Python ast):
  1. module-level (or threading.local / global-dict) buffers: top-level names bound to threading.local(), np.empty/zeros/ones/
     frombuffer(...), bytearray(...), memoryview(...); names declared `global` inside a function and assigned such a value;
     attribute / item stores on a module-level threading.local or dict whose value is such an allocation (`_scratch.buf = np.empty(..)`,
     `_cache[key] = np.empty(..)`);
  2. taint: a local name is tainted when it is assigned from an expression mentioning a buffer of (1), a tainted name, getattr(...) of
     them, or a call of a same-module function that RETURNS a tainted value (fixpoint);
  3. a function escapes a buffer when a `return` expression mentions a tainted name / a buffer of (1).

Output (Gallina): module_buffers : list (string * string)   -- (module, name)
                  escaping       : list (string * string)   -- (module, function)
Anything it cannot parse: exit status 2 (fail closed; the dynamic aliasing check of the harness remains).
"""
import ast
import os
import sys

ALLOC = {"empty", "zeros", "ones", "frombuffer", "bytearray", "memoryview", "local", "full", "empty_like", "zeros_like"}


def call_name(e):
    if isinstance(e, ast.Call):
        f = e.func
        return f.attr if isinstance(f, ast.Attribute) else (f.id if isinstance(f, ast.Name) else None)
    return None


def is_alloc(e):
    return call_name(e) in ALLOC


def names_in(e):
    return {n.id for n in ast.walk(e) if isinstance(n, ast.Name)}


def analyse(path):
    mod = os.path.splitext(os.path.basename(path))[0]
    tree = ast.parse(open(path).read())
    buffers = set()
    holders = set()            # module-level dicts / threading.local objects that may hold buffers
    for n in tree.body:
        if isinstance(n, ast.Assign) and len(n.targets) == 1 and isinstance(n.targets[0], ast.Name):
            if is_alloc(n.value):
                buffers.add(n.targets[0].id)
            if call_name(n.value) == "local":
                holders.add(n.targets[0].id)
    funcs = [n for n in ast.walk(tree) if isinstance(n, ast.FunctionDef)]
    # stores of allocations into module-level holders / globals from inside functions
    for f in funcs:
        declared = {g for n in ast.walk(f) if isinstance(n, ast.Global) for g in n.names}
        for n in ast.walk(f):
            if isinstance(n, ast.Assign):
                for t in n.targets:
                    tt = t.elts if isinstance(t, ast.Tuple) else [t]
                    for x in tt:
                        if isinstance(x, ast.Name) and x.id in declared and any(is_alloc(c) for c in ast.walk(n.value) if isinstance(c, ast.Call)):
                            buffers.add(x.id)
                        if isinstance(x, (ast.Attribute, ast.Subscript)) and isinstance(x.value, ast.Name):
                            top = x.value.id
                            module_level = any(isinstance(b, ast.Assign) and any(isinstance(tg, ast.Name) and tg.id == top for tg in b.targets)
                                               for b in tree.body)
                            if module_level and any(is_alloc(c) for c in ast.walk(n.value) if isinstance(c, ast.Call)):
                                buffers.add(top)
    fnames = {f.name for f in funcs}
    returns_tainted = set()
    changed = True
    while changed:
        changed = False
        for f in funcs:
            if f.name in returns_tainted:
                continue
            params = {a.arg for a in f.args.args + f.args.kwonlyargs}
            tainted = set()

            def dirty(e):
                ns = names_in(e)
                if (ns & buffers) - params or ns & tainted:
                    return True
                return any(call_name(c) in returns_tainted for c in ast.walk(e) if isinstance(c, ast.Call))
            for _ in range(4):
                for n in ast.walk(f):
                    if isinstance(n, ast.Assign) and dirty(n.value):
                        for t in n.targets:
                            for x in (t.elts if isinstance(t, ast.Tuple) else [t]):
                                if isinstance(x, ast.Name):
                                    tainted.add(x.id)
            for n in ast.walk(f):
                if isinstance(n, ast.Return) and n.value is not None and dirty(n.value):
                    returns_tainted.add(f.name)
                    changed = True
                    break
    return mod, sorted(buffers), sorted(returns_tainted & fnames)


def main(paths):
    bufs, esc = [], []
    for p in paths:
        mod, b, e = analyse(p)
        bufs += [(mod, x) for x in b]
        esc += [(mod, x) for x in e]
    print("(* generated by translators/views2coq.py - do not edit *)")
    print("From Coq Require Import String List.")
    print("Import ListNotations.")
    print("Open Scope string_scope.")
    print("Definition module_buffers : list (string * string) :=\n  [" + "; ".join('("%s", "%s")' % x for x in bufs) + "].")
    print("Definition escaping : list (string * string) :=\n  [" + "; ".join('("%s", "%s")' % x for x in esc) + "].")


if __name__ == "__main__":
    try:
        main(sys.argv[1:])
    except SyntaxError as e:
        sys.stderr.write("views2coq: cannot parse: %s\n" % e)
        sys.exit(2)
