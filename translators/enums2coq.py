"""enums2coq: the enum classes of fastparquet/parquet_thrift/parquet/ttypes.py (the integer constants the writer and
reader actually use: `parquet_thrift.Type.INT32`, `Encoding.RLE`, ...) -> Gallina `list edef` (Pq.Thrift.Idl).
Also records whether each class's `_VALUES_TO_NAMES` / `_NAMES_TO_VALUES` tables agree with its constants.
Fails closed: a class body may only hold a docstring, `NAME = <int literal>` and the two dict literals."""
import ast


class EnumsError(Exception):
    pass


def parse(path):
    tree = ast.parse(open(path, encoding="utf-8").read(), filename=path)
    out = []
    for node in tree.body:
        if isinstance(node, (ast.Import, ast.ImportFrom)):
            continue
        if isinstance(node, ast.Expr) and isinstance(node.value, ast.Constant) and isinstance(node.value.value, str):
            continue
        if not isinstance(node, ast.ClassDef):
            raise EnumsError("line %d: unsupported top-level statement" % node.lineno)
        vals, v2n, n2v = [], None, None
        for st in node.body:
            if isinstance(st, ast.Expr) and isinstance(st.value, ast.Constant) and isinstance(st.value.value, str):
                continue
            if not (isinstance(st, ast.Assign) and len(st.targets) == 1 and isinstance(st.targets[0], ast.Name)):
                raise EnumsError("%s line %d: unsupported statement" % (node.name, st.lineno))
            name = st.targets[0].id
            try:
                v = ast.literal_eval(st.value)
            except Exception:   # noqa
                raise EnumsError("%s.%s: not a literal" % (node.name, name))
            if name == "_VALUES_TO_NAMES":
                v2n = v
            elif name == "_NAMES_TO_VALUES":
                n2v = v
            elif isinstance(v, int) and not isinstance(v, bool):
                vals.append((name, v))
            else:
                raise EnumsError("%s.%s: expected an int" % (node.name, name))
        if v2n is not None and v2n != {v: n for n, v in vals}:
            raise EnumsError("%s._VALUES_TO_NAMES disagrees with the constants" % node.name)
        if n2v is not None and n2v != dict(vals):
            raise EnumsError("%s._NAMES_TO_VALUES disagrees with the constants" % node.name)
        out.append((node.name, vals))
    if not out:
        raise EnumsError("no enum class found")
    return out


def translate(path):
    enums = parse(path)
    o = ["From Coq Require Import NArith ZArith List String.", "From Pq Require Import Thrift.Idl.", "Import ListNotations.",
         "Open Scope string_scope.", "", "Definition enums : list edef :=", " ["]
    o.append(";\n".join('  mkE "%s" [%s]' % (n, "; ".join('("%s", %s%%Z)' % (vn, ("(%d)" % vv) if vv < 0 else str(vv)) for vn, vv in vals))
                        for n, vals in enums))
    o += [" ]."]
    return "\n".join(o) + "\n"


if __name__ == "__main__":
    import sys
    print(translate(sys.argv[1]))
