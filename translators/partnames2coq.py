"""partnames2coq - Python `ast` -> Gallina for the small pure path functions the dataset models (Dataset/FsPaths.v, Ops.v, Edit.v)
mirror by hand:

    writer.find_max_part            pids = part_ids(row_groups); if pids: return max(pids) + 1 else: return 0
    writer.write_multi              the two assignments of i_offset (append / not append) and  part = 'part.%i.parquet' % (i + i_offset)
    util.join_path                  "/".join([str(p).replace("\\", "/").rstrip("/") for p in path if p])
    util.path_string                if isinstance(o, pd.Timestamp): return o.isoformat();  return str(o)
    api.PART_ID                     the regular expression, as a token list (inventory compared with the pinned one)

Output: Gen/GenPartNames.v (logical root PqGen) over the vocabulary of Dataset/PathPrelude.v; the theorems over the generated text are in
coq/genproofs/GenPartNamesProofs.v and are re-proved on every run.  Anything outside the fragment -> TranslatorError -> the check records
`translator_fallback` and relies on the hand model + the function-against-function correspondence (FsPaths.part_id / find_max_part
against the real functions), as before.

Fragment.  Integer expressions: int literals >= 0, parameters/locals, a + b, max(NAME) (NAME bound to the ids), a call of
find_max_part on the row groups.  Statements: NAME = call of part_ids(param) (binds the abstract id list), `if NAME:` on the id list
with a `return` in both branches, `return e`.  Text: string literals, `'A%iB' % e`, sep.join([...for p in path if p]) with
str(p) / .replace(c1, c2) / .rstrip(c) chains on one-character arguments.  Everything else fails closed."""
import ast
import os
import re


class TranslatorError(Exception):
    pass


def _fail(node, msg):
    raise TranslatorError("%s at line %s: %s" % (msg, getattr(node, "lineno", "?"), ast.dump(node)[:200] if isinstance(node, ast.AST) else node))


def _func(tree, name):
    for n in tree.body:
        if isinstance(n, ast.FunctionDef) and n.name == name:
            return n
    raise TranslatorError("function %s not found" % name)


def _body(fn):
    b = list(fn.body)
    if b and isinstance(b[0], ast.Expr) and isinstance(getattr(b[0], "value", None), ast.Constant) and isinstance(b[0].value.value, str):
        b = b[1:]          # docstring
    return b


def _bytes_lit(s):
    return "[%s]" % "; ".join(str(c) for c in s.encode("utf-8"))


class IntExpr:
    """integer expressions over N"""

    def __init__(self, names, idlists):
        self.names = dict(names)        # python name -> Gallina name (integers)
        self.idlists = dict(idlists)    # python name -> Gallina name (list of part ids)

    def tr(self, e):
        if isinstance(e, ast.Constant) and isinstance(e.value, int) and not isinstance(e.value, bool) and e.value >= 0:
            return "%d" % e.value
        if isinstance(e, ast.Name) and e.id in self.names:
            return self.names[e.id]
        if isinstance(e, ast.BinOp) and isinstance(e.op, ast.Add):
            return "(%s + %s)" % (self.tr(e.left), self.tr(e.right))
        if isinstance(e, ast.Call) and isinstance(e.func, ast.Name) and e.func.id == "max" and len(e.args) == 1 and not e.keywords \
                and isinstance(e.args[0], ast.Name) and e.args[0].id in self.idlists:
            return "(py_max %s)" % self.idlists[e.args[0].id]
        _fail(e, "integer expression outside the fragment")


def tr_find_max_part(tree):
    fn = _func(tree, "find_max_part")
    if [a.arg for a in fn.args.args] != ["row_groups"]:
        _fail(fn, "find_max_part: unexpected parameters")
    body = _body(fn)
    if len(body) != 2:
        _fail(fn, "find_max_part: expected an assignment and an if")
    asg, cond = body
    if not (isinstance(asg, ast.Assign) and len(asg.targets) == 1 and isinstance(asg.targets[0], ast.Name)
            and isinstance(asg.value, ast.Call) and isinstance(asg.value.func, ast.Name) and asg.value.func.id == "part_ids"
            and len(asg.value.args) == 1 and isinstance(asg.value.args[0], ast.Name) and asg.value.args[0].id == "row_groups"
            and not asg.value.keywords):
        _fail(asg, "find_max_part: first statement is not NAME = part_ids(row_groups)")
    ids = asg.targets[0].id
    ie = IntExpr({}, {ids: "pids"})
    if not (isinstance(cond, ast.If) and isinstance(cond.test, ast.Name) and cond.test.id == ids
            and len(cond.body) == 1 and isinstance(cond.body[0], ast.Return) and cond.body[0].value is not None
            and len(cond.orelse) == 1 and isinstance(cond.orelse[0], ast.Return) and cond.orelse[0].value is not None):
        _fail(cond, "find_max_part: second statement is not `if ids: return e else: return e`")
    return ("(* writer.find_max_part, on the part ids of the referenced paths (keys of api.part_ids) *)\n"
            "Definition gen_find_max_part (pids : list N) : N :=\n  if py_truthy pids then %s else %s.\n" % (
                ie.tr(cond.body[0].value), ie.tr(cond.orelse[0].value)))


def tr_write_multi(tree):
    fn = _func(tree, "write_multi")
    offs, fmt = {}, None
    # i_offset: `if not append: i_offset = e ... else: i_offset = find_max_part(fmd.row_groups)` (either orientation)
    for st in ast.walk(fn):
        if isinstance(st, ast.If):
            t = st.test
            neg = isinstance(t, ast.UnaryOp) and isinstance(t.op, ast.Not)
            nm = t.operand if neg else t
            if not (isinstance(nm, ast.Name) and nm.id == "append"):
                continue
            for branch, key in ((st.body, not neg), (st.orelse, neg)):
                for s in branch:
                    if isinstance(s, ast.Assign) and len(s.targets) == 1 and isinstance(s.targets[0], ast.Name) and s.targets[0].id == "i_offset":
                        if key in offs:
                            _fail(s, "write_multi: i_offset assigned twice in one branch")
                        offs[key] = s.value
    others = [s for s in ast.walk(fn) if isinstance(s, (ast.Assign, ast.AugAssign)) and
              any(isinstance(t, ast.Name) and t.id == "i_offset" for t in (s.targets if isinstance(s, ast.Assign) else [s.target]))]
    if set(offs) != {True, False} or len(others) != 2:
        _fail(fn, "write_multi: i_offset is not assigned exactly once per branch of `if [not] append`")

    def off_expr(e):
        if isinstance(e, ast.Call) and isinstance(e.func, ast.Name) and e.func.id == "find_max_part" and len(e.args) == 1 and not e.keywords \
                and isinstance(e.args[0], ast.Attribute) and e.args[0].attr == "row_groups" and isinstance(e.args[0].value, ast.Name) and e.args[0].value.id == "fmd":
            return "(gen_find_max_part pids)"
        return IntExpr({}, {}).tr(e)
    # part = 'part.%i.parquet' % (i + i_offset) inside `for i, row_group in enumerate(data)`
    parts = [s for s in ast.walk(fn) if isinstance(s, ast.Assign) and len(s.targets) == 1 and isinstance(s.targets[0], ast.Name) and s.targets[0].id == "part"]
    if len(parts) != 1:
        _fail(fn, "write_multi: `part` is not assigned exactly once")
    v = parts[0].value
    if not (isinstance(v, ast.BinOp) and isinstance(v.op, ast.Mod) and isinstance(v.left, ast.Constant) and isinstance(v.left.value, str)):
        _fail(v, "write_multi: part is not 'TEXT' % e")
    m = re.fullmatch(r"([^%]*)%[id]([^%]*)", v.left.value)
    if not m:
        _fail(v, "write_multi: format string is not PRE%iSUF")
    arg = v.right
    if isinstance(arg, ast.Tuple) and len(arg.elts) == 1:
        arg = arg.elts[0]
    num = IntExpr({"i": "i", "i_offset": "i_offset"}, {}).tr(arg)
    loops = [s for s in ast.walk(fn) if isinstance(s, ast.For) and parts[0] in ast.walk(s)]
    if not (loops and isinstance(loops[0].iter, ast.Call) and isinstance(loops[0].iter.func, ast.Name) and loops[0].iter.func.id == "enumerate"
            and isinstance(loops[0].target, ast.Tuple) and isinstance(loops[0].target.elts[0], ast.Name) and loops[0].target.elts[0].id == "i"
            and len(loops[0].iter.args) == 1 and not loops[0].iter.keywords):
        _fail(fn, "write_multi: part is not computed inside `for i, ... in enumerate(data)` (counting from 0)")
    return ("(* writer.write_multi: the part number offset (append / not append) and the part-file name of row group number i *)\n"
            "Definition gen_i_offset (append : bool) (pids : list N) : N :=\n  if append then %s else %s.\n"
            "Definition gen_part_name (i i_offset : N) : bytes :=\n  py_fmt_i %s %s %s.\n" % (
                off_expr(offs[True]), off_expr(offs[False]), _bytes_lit(m.group(1)), _bytes_lit(m.group(2)), num))


def _one_char(e, what):
    if isinstance(e, ast.Constant) and isinstance(e.value, str) and len(e.value.encode("utf-8")) == 1:
        return e.value.encode("utf-8")[0]
    _fail(e, "%s: argument is not a one-character string literal" % what)


def tr_join_path(tree):
    fn = _func(tree, "join_path")
    if fn.args.args or fn.args.vararg is None or fn.args.vararg.arg != "path" or fn.args.kwonlyargs or fn.args.kwarg:
        _fail(fn, "join_path: expected the signature (*path)")
    body = _body(fn)
    if not (len(body) == 1 and isinstance(body[0], ast.Return)):
        _fail(fn, "join_path: expected a single return")
    e = body[0].value
    if not (isinstance(e, ast.Call) and isinstance(e.func, ast.Attribute) and e.func.attr == "join" and isinstance(e.func.value, ast.Constant)
            and isinstance(e.func.value.value, str) and len(e.args) == 1 and isinstance(e.args[0], (ast.ListComp, ast.GeneratorExp))):
        _fail(e, "join_path: not SEP.join([... for p in path ...])")
    sep = e.func.value.value
    comp = e.args[0]
    if len(comp.generators) != 1:
        _fail(comp, "join_path: more than one generator")
    g = comp.generators[0]
    if not (isinstance(g.target, ast.Name) and isinstance(g.iter, ast.Name) and g.iter.id == "path" and not g.is_async):
        _fail(comp, "join_path: generator is not `for p in path`")
    v = g.target.id
    if not (len(g.ifs) == 1 and isinstance(g.ifs[0], ast.Name) and g.ifs[0].id == v):
        _fail(comp, "join_path: filter is not `if p`")

    def elt(x):
        if isinstance(x, ast.Call) and isinstance(x.func, ast.Name) and x.func.id == "str" and len(x.args) == 1 and isinstance(x.args[0], ast.Name) and x.args[0].id == v:
            return "p"                       # str(p) of a text component
        if isinstance(x, ast.Name) and x.id == v:
            return "p"
        if isinstance(x, ast.Call) and isinstance(x.func, ast.Attribute) and not x.keywords:
            inner = elt(x.func.value)
            if x.func.attr == "replace" and len(x.args) == 2:
                return "(py_replace1 %d %d %s)" % (_one_char(x.args[0], "replace"), _one_char(x.args[1], "replace"), inner)
            if x.func.attr == "rstrip" and len(x.args) == 1:
                return "(py_rstrip1 %d %s)" % (_one_char(x.args[0], "rstrip"), inner)
        _fail(x, "join_path: element expression outside the fragment")
    return ("(* util.join_path on text components (signature: *path) *)\n"
            "Definition gen_join_path (path : list bytes) : bytes :=\n  py_join %s (map (fun p => %s) (filter py_truthy path)).\n" % (
                _bytes_lit(sep), elt(comp.elt)))


def tr_path_string(tree):
    fn = _func(tree, "path_string")
    if [a.arg for a in fn.args.args] != ["o"]:
        _fail(fn, "path_string: unexpected parameters")
    body = _body(fn)
    ok = (len(body) == 2 and isinstance(body[0], ast.If) and not body[0].orelse and len(body[0].body) == 1 and isinstance(body[0].body[0], ast.Return)
          and isinstance(body[1], ast.Return))
    if not ok:
        _fail(fn, "path_string: expected `if isinstance(o, pd.Timestamp): return o.isoformat()` followed by `return str(o)`")
    t = body[0].test
    if not (isinstance(t, ast.Call) and isinstance(t.func, ast.Name) and t.func.id == "isinstance" and len(t.args) == 2
            and isinstance(t.args[0], ast.Name) and t.args[0].id == "o" and isinstance(t.args[1], ast.Attribute) and t.args[1].attr == "Timestamp"):
        _fail(t, "path_string: test is not isinstance(o, pd.Timestamp)")
    r1, r2 = body[0].body[0].value, body[1].value
    if not (isinstance(r1, ast.Call) and isinstance(r1.func, ast.Attribute) and r1.func.attr == "isoformat" and not r1.args and not r1.keywords
            and isinstance(r1.func.value, ast.Name) and r1.func.value.id == "o"):
        _fail(r1, "path_string: timestamp branch is not o.isoformat()")
    if not (isinstance(r2, ast.Call) and isinstance(r2.func, ast.Name) and r2.func.id == "str" and len(r2.args) == 1
            and isinstance(r2.args[0], ast.Name) and r2.args[0].id == "o"):
        _fail(r2, "path_string: default branch is not str(o)")
    return ("(* util.path_string: the text of a partition value in a directory name; is_ts / isoformat / str are pandas' and Python's *)\n"
            "Definition gen_path_string {V : Type} (is_ts : V -> bool) (isoformat str : V -> bytes) (o : V) : bytes :=\n"
            "  if is_ts o then isoformat o else str o.\n")


def tr_part_re(tree):
    pat = None
    for n in tree.body:
        if isinstance(n, ast.Assign) and len(n.targets) == 1 and isinstance(n.targets[0], ast.Name) and n.targets[0].id == "PART_ID":
            v = n.value
            if isinstance(v, ast.Call) and isinstance(v.func, ast.Attribute) and v.func.attr == "compile" and len(v.args) == 1 and not v.keywords \
                    and isinstance(v.args[0], ast.Constant) and isinstance(v.args[0].value, str):
                pat = v.args[0].value
    if pat is None:
        raise TranslatorError("PART_ID = re.compile('<literal>') not found")
    toks, i = [], 0
    while i < len(pat):
        if pat.startswith(".*", i):
            toks.append("RStarAny")
            i += 2
        elif pat[i] == ".":
            toks.append("RAny")
            i += 1
        elif pat[i] == "$" and i == len(pat) - 1:
            toks.append("REnd")
            i += 1
        elif pat.startswith("(?P<i>[\\d]+)", i):
            toks.append("RGroupDigits1")
            i += len("(?P<i>[\\d]+)")
        elif pat.startswith("(?P<i>\\d+)", i):
            toks.append("RGroupDigits1")
            i += len("(?P<i>\\d+)")
        elif pat[i].isalnum() or pat[i] in "_-/=":
            toks.append("RLit %d" % ord(pat[i]))
            i += 1
        else:
            raise TranslatorError("PART_ID: construct outside the fragment at %d: %r" % (i, pat[i:]))
    shown = repr(pat).replace("(*", "( *").replace("*)", "* )")
    return "(* api.PART_ID = re.compile(%s) *)\nDefinition gen_part_re : list retok :=\n  [%s].\n" % (shown, "; ".join(toks))


HEADER = """(* GENERATED by translators/partnames2coq.py from fastparquet/writer.py, api.py, util.py - do not edit. *)
From Coq Require Import NArith List Bool.
From Pq Require Import Base.Bytes Dataset.FS Dataset.FsPaths Dataset.PathPrelude.
Import ListNotations.
Open Scope N_scope.

"""


def run(repo, gen_dir):
    """-> {"status": "translated", "file": path} | {"status": "translator_fallback", "reason": text}"""
    try:
        src = {m: ast.parse(open(os.path.join(repo, "fastparquet", m + ".py")).read()) for m in ("writer", "api", "util")}
        text = HEADER + tr_find_max_part(src["writer"]) + "\n" + tr_write_multi(src["writer"]) + "\n" + tr_join_path(src["util"]) + "\n" + \
            tr_path_string(src["util"]) + "\n" + tr_part_re(src["api"])
    except (TranslatorError, SyntaxError, OSError) as e:
        return {"status": "translator_fallback", "reason": str(e)[:400]}
    os.makedirs(gen_dir, exist_ok=True)
    path = os.path.join(gen_dir, "GenPartNames.v")
    with open(path, "w") as f:
        f.write(text)
    return {"status": "translated", "file": path, "text": text}


if __name__ == "__main__":
    import sys
    r = run(sys.argv[1], sys.argv[2])
    print(r.get("text") or r)
