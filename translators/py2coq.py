"""py2coq: Python `ast` -> Gallina over the value universe of coq/theories/Base/PyVal.v.

Fail closed: any construct outside the supported subset raises Unsupported with the source
location; the caller then falls back to the hand model + correspondence (DESIGN 4.1).

Supported subset (what the leaf functions of api.py's row-group filter use):
  def f(a, b=None, ...):      positional parameters, defaults must be None/constants
  docstring, pass
  x = <expr>                  single Name target
  if / elif / else            (branches may return or fall through; variables assigned in a
                               branch must already be bound before the `if`)
  return <expr>
  expressions: names, None/True/False/int/str constants, list displays, a single comparison
  (== != < <= > >= in, not in (right operand may be a tuple display), is None, is not None), and/or/not, len(x), sorted(x),
  isinstance(x, np.ndarray), np.searchsorted(a, v, side='left'|'right'), x[<int constant>],
  calls of other translated functions (positional/keyword, defaults filled in).

Semantics of the output: every expression is a term of type `res pv` (error monad); evaluation
order is Python's (left to right, `and`/`or` short-circuit); falling off the end returns PNone.
"""
import ast
import sys

GALLINA_KW = {"in", "as", "at", "end", "fix", "fun", "if", "let", "match", "return", "then", "else",
              "with", "forall", "exists", "Type", "Prop", "Set", "cofix", "for", "where", "using",
              "bind", "Ok", "Err", "pv", "res", "truthy"}


class Unsupported(Exception):
    pass


def _loc(node, fn):
    return "%s:%s:%s" % (fn, getattr(node, "lineno", "?"), getattr(node, "col_offset", "?"))


class Tr:
    def __init__(self, tree, filename, funcs):
        self.filename = filename
        self.defs = {}
        for n in tree.body:
            if isinstance(n, ast.FunctionDef) and n.name in funcs:
                self.defs[n.name] = n
        missing = [f for f in funcs if f not in self.defs]
        if missing:
            raise Unsupported("%s: function(s) not found at module level: %s" % (filename, missing))
        self.counter = 0
        self.calls = {f: set() for f in funcs}
        self.cur = None

    def bad(self, node, what):
        raise Unsupported("%s: unsupported %s (%s)" % (_loc(node, self.filename), what, type(node).__name__))

    def fresh(self, base):
        self.counter += 1
        return "%s_%d" % (base, self.counter)

    @staticmethod
    def ident(name):
        if name in GALLINA_KW or name.startswith("py_") or name.startswith("k_") or name.startswith("t_"):
            return name + "_"
        return name

    # ---- expressions: return Gallina text of type `res pv` -------------------------------------
    def const(self, node):
        v = node.value
        if v is None:
            return "PNone"
        if v is True:
            return "(PBool true)"
        if v is False:
            return "(PBool false)"
        if isinstance(v, int):
            return "(PInt (%d))" % v
        if isinstance(v, str):
            if '"' in v or any(ord(c) < 32 or ord(c) > 126 for c in v):
                self.bad(node, "string constant with quote/non-printable character")
            return '(PStr "%s")' % v
        self.bad(node, "constant of type %s" % type(v).__name__)

    def binds(self, exprs, body):
        """evaluate exprs left to right, bind to fresh names, body(names) -> term"""
        names = []
        wraps = []
        for e in exprs:
            pure = self.pure(e)
            if pure is not None:
                names.append(pure)
            else:
                t = self.fresh("t")
                wraps.append((self.expr(e), t))
                names.append(t)
        out = body(names)
        for term, t in reversed(wraps):
            out = "(bind %s (fun %s => %s))" % (term, t, out)
        return out

    def pure(self, e):
        """text of type pv when the expression cannot raise and needs no monad, else None"""
        if isinstance(e, ast.Name):
            if e.id not in self.env:
                self.bad(e, "name %r not bound on every path before this use" % e.id)
            return self.ident(e.id)
        if isinstance(e, ast.Constant):
            return self.const(e)
        if isinstance(e, ast.UnaryOp) and isinstance(e.op, ast.USub) and isinstance(e.operand, ast.Constant) \
                and isinstance(e.operand.value, int) and not isinstance(e.operand.value, bool):
            return "(PInt (%d))" % (-e.operand.value)
        if isinstance(e, ast.List):
            parts = [self.pure(x) for x in e.elts]
            if all(p is not None for p in parts):
                return "(PList [%s])" % "; ".join(parts)
        return None

    def expr(self, e):
        p = self.pure(e)
        if p is not None:
            return "(Ok %s)" % p
        if isinstance(e, ast.List):
            return self.binds(e.elts, lambda ns: "(Ok (PList [%s]))" % "; ".join(ns))
        if isinstance(e, ast.Compare):
            if len(e.ops) != 1:
                self.bad(e, "chained comparison")
            op, l, r = e.ops[0], e.left, e.comparators[0]
            if isinstance(op, (ast.Is, ast.IsNot)):
                if not (isinstance(r, ast.Constant) and r.value is None):
                    self.bad(e, "`is` with something other than None")
                f = "py_is_none" if isinstance(op, ast.Is) else "py_is_not_none"
                return self.binds([l], lambda ns: "(%s %s)" % (f, ns[0]))
            table = {ast.Eq: "py_eq", ast.NotEq: "py_ne", ast.Lt: "py_lt", ast.LtE: "py_le",
                     ast.Gt: "py_gt", ast.GtE: "py_ge", ast.In: "py_in", ast.NotIn: "py_not_in"}
            if type(op) not in table:
                self.bad(e, "comparison operator")
            if isinstance(op, (ast.In, ast.NotIn)) and isinstance(r, ast.Tuple):
                # membership in a tuple display is membership in the list of its elements
                r = ast.copy_location(ast.List(elts=r.elts, ctx=ast.Load()), r)
            return self.binds([l, r], lambda ns: "(%s %s %s)" % (table[type(op)], ns[0], ns[1]))
        if isinstance(e, ast.BoolOp):
            # a and b and c  ==  a and (b and c); value semantics (returns the deciding operand)
            vals = e.values
            isand = isinstance(e.op, ast.And)
            out = self.expr(vals[-1])
            for v in reversed(vals[:-1]):
                t = self.fresh("t")
                if isand:
                    out = "(bind %s (fun %s => if truthy %s then %s else Ok %s))" % (self.expr(v), t, t, out, t)
                else:
                    out = "(bind %s (fun %s => if truthy %s then Ok %s else %s))" % (self.expr(v), t, t, t, out)
            return out
        if isinstance(e, ast.UnaryOp):
            if isinstance(e.op, ast.Not):
                return self.binds([e.operand], lambda ns: "(py_not %s)" % ns[0])
            self.bad(e, "unary operator")
        if isinstance(e, ast.Subscript):
            idx = e.slice
            p = self.pure(idx)
            if p is None or not p.startswith("(PInt"):
                self.bad(e, "subscript that is not an integer constant")
            return self.binds([e.value], lambda ns: "(py_index %s %s)" % (ns[0], p))
        if isinstance(e, ast.Call):
            return self.call(e)
        self.bad(e, "expression")

    def call(self, e):
        f = e.func
        if isinstance(f, ast.Name):
            if f.id in ("len", "sorted") and len(e.args) == 1 and not e.keywords:
                return self.binds(e.args, lambda ns: "(py_%s %s)" % (f.id, ns[0]))
            if f.id == "isinstance" and len(e.args) == 2 and not e.keywords:
                c = e.args[1]
                if isinstance(c, ast.Attribute) and isinstance(c.value, ast.Name) and c.value.id == "np" \
                        and c.attr == "ndarray":
                    return self.binds(e.args[:1], lambda ns: "(py_isinstance_ndarray %s)" % ns[0])
                self.bad(e, "isinstance with a class other than np.ndarray")
            if f.id in self.defs:
                d = self.defs[f.id]
                params = [a.arg for a in d.args.args]
                defaults = [None] * (len(params) - len(d.args.defaults)) + list(d.args.defaults)
                actual = dict(zip(params, e.args))
                if len(e.args) > len(params):
                    self.bad(e, "too many arguments")
                for kw in e.keywords:
                    if kw.arg is None or kw.arg not in params or kw.arg in actual:
                        self.bad(e, "keyword argument")
                    actual[kw.arg] = kw.value
                args = []
                for p_, dflt in zip(params, defaults):
                    if p_ in actual:
                        args.append(actual[p_])
                    elif dflt is not None:
                        args.append(dflt)
                    else:
                        self.bad(e, "missing argument %r" % p_)
                self.calls[self.cur].add(f.id)
                return self.binds(args, lambda ns: "(%s %s)" % (self.ident(f.id), " ".join(ns)))
        if isinstance(f, ast.Attribute) and isinstance(f.value, ast.Name) and f.value.id == "np" \
                and f.attr == "searchsorted":
            side = "left"
            for kw in e.keywords:
                if kw.arg == "side" and isinstance(kw.value, ast.Constant) and kw.value.value in ("left", "right"):
                    side = kw.value.value
                else:
                    self.bad(e, "np.searchsorted keyword")
            if len(e.args) != 2:
                self.bad(e, "np.searchsorted arity")
            return self.binds(e.args, lambda ns: "(py_searchsorted_%s %s %s)" % (side, ns[0], ns[1]))
        self.bad(e, "call")

    # ---- statements ---------------------------------------------------------------------------
    @staticmethod
    def assigned(stmts):
        out = []
        for s in stmts:
            if isinstance(s, ast.Assign):
                for t in s.targets:
                    if isinstance(t, ast.Name) and t.id not in out:
                        out.append(t.id)
            elif isinstance(s, ast.If):
                for x in Tr.assigned(s.body) + Tr.assigned(s.orelse):
                    if x not in out:
                        out.append(x)
        return out

    def block(self, stmts, k, ind):
        """k: text of the continuation term (type res pv) valid in the current scope"""
        if not stmts:
            return k
        s, rest = stmts[0], stmts[1:]
        pad = "  " * ind
        if isinstance(s, ast.Expr) and isinstance(s.value, ast.Constant) and isinstance(s.value.value, str):
            return self.block(rest, k, ind)        # docstring
        if isinstance(s, ast.Pass):
            return self.block(rest, k, ind)
        if isinstance(s, ast.Return):
            if s.value is None:
                return "(Ok PNone)"
            return self.expr(s.value)
        if isinstance(s, ast.Assign):
            if len(s.targets) != 1 or not isinstance(s.targets[0], ast.Name):
                self.bad(s, "assignment target")
            rhs = self.expr(s.value)
            name = s.targets[0].id
            saved = set(self.env)
            self.env.add(name)
            body = self.block(rest, k, ind)
            self.env = saved | {name}
            return "(bind %s (fun %s =>\n%s%s))" % (rhs, self.ident(name), pad, body)
        if isinstance(s, ast.If):
            vs = self.assigned(s.body) + [x for x in self.assigned(s.orelse) if x not in self.assigned(s.body)]
            for v in vs:
                if v not in self.env:
                    self.bad(s, "variable %r first assigned inside an if" % v)
            cond = self.expr(s.test)
            if rest:
                kn = self.fresh("k")
                params = " ".join("(%s : pv)" % self.ident(v) for v in vs) or "(_ : unit)"
                kcall = "(%s %s)" % (kn, " ".join(self.ident(v) for v in vs) or "tt")
                rest_t = self.block(rest, k, ind + 1)
                a = self.block(s.body, kcall, ind + 1)
                b = self.block(s.orelse, kcall, ind + 1)
                t = self.fresh("t")
                return ("(let %s := fun %s =>\n%s  %s in\n%sbind %s (fun %s =>\n%sif truthy %s\n%sthen %s\n%selse %s))"
                        % (kn, params, pad, rest_t, pad, cond, t, pad, t, pad, a, pad, b))
            a = self.block(s.body, k, ind + 1)
            b = self.block(s.orelse, k, ind + 1)
            t = self.fresh("t")
            return "(bind %s (fun %s =>\n%sif truthy %s\n%sthen %s\n%selse %s))" % (cond, t, pad, t, pad, a, pad, b)
        self.bad(s, "statement")

    def function(self, name):
        d = self.defs[name]
        a = d.args
        if a.vararg or a.kwarg or a.kwonlyargs or a.posonlyargs:
            self.bad(d, "parameter kind")
        for dflt in a.defaults:
            if not isinstance(dflt, ast.Constant):
                self.bad(dflt, "default value")
        self.cur = name
        self.env = {x.arg for x in a.args}
        body = self.block(d.body, "(Ok PNone)", 1)
        params = " ".join(self.ident(x.arg) for x in a.args)
        return "(* %s:%d *)\nDefinition %s (%s : pv) : res pv :=\n  %s.\n" % (
            self.filename.split("/")[-1], d.lineno, self.ident(name), params, body)


def translate(source_path, funcs, module_name="GenFilter"):
    src = open(source_path).read()
    tree = ast.parse(src, source_path)
    tr = Tr(tree, source_path, funcs)
    texts = {f: tr.function(f) for f in funcs}
    # topological order by calls
    order, seen = [], set()

    def visit(f, stack=()):
        if f in seen:
            return
        if f in stack:
            raise Unsupported("recursive call involving %s" % f)
        for g in sorted(tr.calls[f]):
            visit(g, stack + (f,))
        seen.add(f)
        order.append(f)
    for f in funcs:
        visit(f)
    out = "(* GENERATED by translators/py2coq.py from %s; functions: %s. Do not edit. *)\n" % (
        "fastparquet/" + source_path.split("/")[-1], ", ".join(order))
    out += "From Coq Require Import ZArith List String.\nFrom Pq Require Import Base.PyVal.\n"
    out += "Import ListNotations.\nOpen Scope string_scope.\nOpen Scope Z_scope.\n\n"
    out += "\n".join(texts[f] for f in order)
    return out


if __name__ == "__main__":
    path = sys.argv[1]
    fs = sys.argv[2:]
    try:
        sys.stdout.write(translate(path, fs))
    except Unsupported as e:
        sys.stderr.write("py2coq: %s\n" % e)
        sys.exit(2)
