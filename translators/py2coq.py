"""py2coq: Python `ast` -> Gallina over the value universe of coq/theories/Base/PyVal.v.

Fail closed: any construct outside the supported subset raises Unsupported with the source
location; the caller then falls back to the hand model + correspondence (DESIGN 4.1).

Supported subset (what the leaf functions of api.py's row-group filter use):
  def f(a, b=None, ...):      positional parameters, defaults must be None/constants
  docstring, pass
  x = <expr>                  single Name target
  if / elif / else            (branches may return or fall through; variables assigned in a
                               branch must already be bound before the `if`)
  return <expr>
  expressions: names, None/True/False/int/str constants, list displays, a single comparison
  (== != < <= > >= in, not in (right operand may be a tuple display), is None, is not None), and/or/not, len(x), sorted(x),
  isinstance(x, np.ndarray), np.searchsorted(a, v, side='left'|'right'), x[<int constant>],
  calls of other translated functions (positional/keyword, defaults filled in).

With loops=True (the row-group loop of api.py; target prelude Base/PyObj.v) additionally:
  for x in e: / for a, b in e:  (body may return / continue; variables assigned in the body that are bound
                               before the loop are carried from one iteration to the next)
  a, b = e1, e2               x.attr   x["key"]   x[n:]   x["key"] = e (x a local name: rebinding)
  [elt for x in e if cond]    hasattr(x, "k")   "sep".join(x)   any(x)   all(x)   tuple displays
  variables first assigned inside an `if` branch are local to that branch
  any other call f(...), mod.f(...), obj.method(...) is EXTERNAL: (ext "f" [args]) for a section variable
  ext : string -> list pv -> res pv  whose behaviour the proofs take as hypotheses.

Semantics of the output: every expression is a term of type `res pv` (error monad); evaluation
order is Python's (left to right, `and`/`or` short-circuit); falling off the end returns PNone.
"""
import ast
import sys

GALLINA_KW = {"in", "as", "at", "end", "fix", "fun", "if", "let", "match", "return", "then", "else",
              "with", "forall", "exists", "Type", "Prop", "Set", "cofix", "for", "where", "using",
              "bind", "Ok", "Err", "pv", "res", "truthy"}


class Unsupported(Exception):
    pass


def _loc(node, fn):
    return "%s:%s:%s" % (fn, getattr(node, "lineno", "?"), getattr(node, "col_offset", "?"))


class Tr:
    def __init__(self, tree, filename, funcs, known=(), loops=False):
        self.loops = loops
        self.retw = None          # inside a loop body: how a `return e` is wrapped
        self.contk = None         # inside a loop body: the text of `continue`
        self.uses_ext = False
        self.known = {}
        for n in tree.body:
            if isinstance(n, ast.FunctionDef) and n.name in known:
                self.known[n.name] = n
        self.filename = filename
        self.defs = {}
        for n in tree.body:
            if isinstance(n, ast.FunctionDef) and n.name in funcs:
                self.defs[n.name] = n
        missing = [f for f in funcs if f not in self.defs]
        if missing:
            raise Unsupported("%s: function(s) not found at module level: %s" % (filename, missing))
        self.counter = 0
        self.calls = {f: set() for f in funcs}
        self.cur = None

    def bad(self, node, what):
        raise Unsupported("%s: unsupported %s (%s)" % (_loc(node, self.filename), what, type(node).__name__))

    def fresh(self, base):
        self.counter += 1
        return "%s_%d" % (base, self.counter)

    @staticmethod
    def ident(name):
        if name in GALLINA_KW or name.startswith("py_") or name.startswith("k_") or name.startswith("t_"):
            return name + "_"
        return name

    # ---- expressions: return Gallina text of type `res pv` -------------------------------------
    def const(self, node):
        v = node.value
        if v is None:
            return "PNone"
        if v is True:
            return "(PBool true)"
        if v is False:
            return "(PBool false)"
        if isinstance(v, int):
            return "(PInt (%d))" % v
        if isinstance(v, str):
            if '"' in v or any(ord(c) < 32 or ord(c) > 126 for c in v):
                self.bad(node, "string constant with quote/non-printable character")
            return '(PStr "%s")' % v
        self.bad(node, "constant of type %s" % type(v).__name__)

    def binds(self, exprs, body):
        """evaluate exprs left to right, bind to fresh names, body(names) -> term"""
        names = []
        wraps = []
        for e in exprs:
            pure = self.pure(e)
            if pure is not None:
                names.append(pure)
            else:
                t = self.fresh("t")
                wraps.append((self.expr(e), t))
                names.append(t)
        out = body(names)
        for term, t in reversed(wraps):
            out = "(bind %s (fun %s => %s))" % (term, t, out)
        return out

    def pure(self, e):
        """text of type pv when the expression cannot raise and needs no monad, else None"""
        if isinstance(e, ast.Name):
            if e.id not in self.env:
                self.bad(e, "name %r not bound on every path before this use" % e.id)
            return self.ident(e.id)
        if isinstance(e, ast.Constant):
            return self.const(e)
        if isinstance(e, ast.UnaryOp) and isinstance(e.op, ast.USub) and isinstance(e.operand, ast.Constant) \
                and isinstance(e.operand.value, int) and not isinstance(e.operand.value, bool):
            return "(PInt (%d))" % (-e.operand.value)
        if isinstance(e, ast.List) or (self.loops and isinstance(e, ast.Tuple)):
            parts = [self.pure(x) for x in e.elts]
            if all(p is not None for p in parts):
                return "(PList [%s])" % "; ".join(parts)
        return None

    def expr(self, e):
        p = self.pure(e)
        if p is not None:
            return "(Ok %s)" % p
        if isinstance(e, ast.List) or (self.loops and isinstance(e, ast.Tuple)):
            return self.binds(e.elts, lambda ns: "(Ok (PList [%s]))" % "; ".join(ns))
        if self.loops and isinstance(e, ast.Attribute):
            return self.binds([e.value], lambda ns: '(py_attr %s "%s")' % (ns[0], e.attr))
        if self.loops and isinstance(e, (ast.ListComp, ast.GeneratorExp)):
            if len(e.generators) != 1 or e.generators[0].is_async or len(e.generators[0].ifs) > 1 \
                    or not isinstance(e.generators[0].target, ast.Name):
                self.bad(e, "comprehension that is not [elt for x in e if cond]")
            g = e.generators[0]
            x = g.target.id
            it = self.expr(g.iter)
            saved = set(self.env)
            self.env.add(x)
            cond = self.expr(g.ifs[0]) if g.ifs else "(Ok (PBool true))"
            elt = self.expr(e.elt)
            self.env = saved
            l, r = self.fresh("t"), self.fresh("t")
            return ("(bind (bind %s py_iter) (fun %s => bind (py_listcomp %s (fun %s => %s) (fun %s => %s)) (fun %s => Ok (PList %s))))"
                    % (it, l, l, self.ident(x), cond, self.ident(x), elt, r, r))
        if isinstance(e, ast.Compare):
            if len(e.ops) != 1:
                self.bad(e, "chained comparison")
            op, l, r = e.ops[0], e.left, e.comparators[0]
            if isinstance(op, (ast.Is, ast.IsNot)):
                if not (isinstance(r, ast.Constant) and r.value is None):
                    self.bad(e, "`is` with something other than None")
                f = "py_is_none" if isinstance(op, ast.Is) else "py_is_not_none"
                return self.binds([l], lambda ns: "(%s %s)" % (f, ns[0]))
            table = {ast.Eq: "py_eq", ast.NotEq: "py_ne", ast.Lt: "py_lt", ast.LtE: "py_le",
                     ast.Gt: "py_gt", ast.GtE: "py_ge", ast.In: "py_in", ast.NotIn: "py_not_in"}
            if type(op) not in table:
                self.bad(e, "comparison operator")
            if isinstance(op, (ast.In, ast.NotIn)) and isinstance(r, ast.Tuple):
                # membership in a tuple display is membership in the list of its elements
                r = ast.copy_location(ast.List(elts=r.elts, ctx=ast.Load()), r)
            return self.binds([l, r], lambda ns: "(%s %s %s)" % (table[type(op)], ns[0], ns[1]))
        if isinstance(e, ast.BoolOp):
            # a and b and c  ==  a and (b and c); value semantics (returns the deciding operand)
            vals = e.values
            isand = isinstance(e.op, ast.And)
            out = self.expr(vals[-1])
            for v in reversed(vals[:-1]):
                t = self.fresh("t")
                if isand:
                    out = "(bind %s (fun %s => if truthy %s then %s else Ok %s))" % (self.expr(v), t, t, out, t)
                else:
                    out = "(bind %s (fun %s => if truthy %s then Ok %s else %s))" % (self.expr(v), t, t, t, out)
            return out
        if isinstance(e, ast.UnaryOp):
            if isinstance(e.op, ast.Not):
                return self.binds([e.operand], lambda ns: "(py_not %s)" % ns[0])
            self.bad(e, "unary operator")
        if isinstance(e, ast.Subscript):
            idx = e.slice
            if self.loops and isinstance(idx, ast.Constant) and isinstance(idx.value, str):
                return self.binds([e.value], lambda ns: '(py_attr %s "%s")' % (ns[0], idx.value))
            if self.loops and isinstance(idx, ast.Slice) and idx.upper is None and idx.step is None \
                    and isinstance(idx.lower, ast.Constant) and isinstance(idx.lower.value, int) and idx.lower.value >= 0:
                return self.binds([e.value], lambda ns: "(py_slice_from %s %d%%nat)" % (ns[0], idx.lower.value))
            p = self.pure(idx)
            if p is None or not p.startswith("(PInt"):
                self.bad(e, "subscript that is not an integer constant")
            return self.binds([e.value], lambda ns: "(py_index %s %s)" % (ns[0], p))
        if isinstance(e, ast.Call):
            return self.call(e)
        self.bad(e, "expression")

    def call(self, e):
        f = e.func
        if isinstance(f, ast.Name):
            if f.id in ("len", "sorted") and len(e.args) == 1 and not e.keywords:
                return self.binds(e.args, lambda ns: "(py_%s %s)" % (f.id, ns[0]))
            if f.id == "isinstance" and len(e.args) == 2 and not e.keywords:
                c = e.args[1]
                if isinstance(c, ast.Attribute) and isinstance(c.value, ast.Name) and c.value.id == "np" \
                        and c.attr == "ndarray":
                    return self.binds(e.args[:1], lambda ns: "(py_isinstance_ndarray %s)" % ns[0])
                if self.loops:
                    names = [c] if isinstance(c, ast.Name) else (list(c.elts) if isinstance(c, ast.Tuple) else [])
                    ids = sorted(n.id for n in names if isinstance(n, ast.Name))
                    if names and len(ids) == len(names) and ids == ["str"]:
                        return self.binds(e.args[:1], lambda ns: "(py_isinstance_str %s)" % ns[0])
                    if names and len(ids) == len(names) and set(ids) <= {"list", "tuple"}:
                        return self.binds(e.args[:1], lambda ns: "(py_isinstance_list %s)" % ns[0])
                self.bad(e, "isinstance with a class other than np.ndarray")
            if self.loops and f.id == "hasattr" and len(e.args) == 2 and not e.keywords and isinstance(e.args[1], ast.Constant) \
                    and isinstance(e.args[1].value, str):
                return self.binds(e.args[:1], lambda ns: '(py_hasattr %s "%s")' % (ns[0], e.args[1].value))
            if self.loops and f.id in ("any", "all") and len(e.args) == 1 and not e.keywords:
                return self.binds(e.args, lambda ns: "(py_%s %s)" % (f.id, ns[0]))
            if f.id in self.defs or f.id in self.known:
                d = self.defs[f.id] if f.id in self.defs else self.known[f.id]
                params = [a.arg for a in d.args.args]
                defaults = [None] * (len(params) - len(d.args.defaults)) + list(d.args.defaults)
                actual = dict(zip(params, e.args))
                if len(e.args) > len(params):
                    self.bad(e, "too many arguments")
                for kw in e.keywords:
                    if kw.arg is None or kw.arg not in params or kw.arg in actual:
                        self.bad(e, "keyword argument")
                    actual[kw.arg] = kw.value
                args = []
                for p_, dflt in zip(params, defaults):
                    if p_ in actual:
                        args.append(actual[p_])
                    elif dflt is not None:
                        args.append(dflt)
                    else:
                        self.bad(e, "missing argument %r" % p_)
                if f.id in self.defs:
                    self.calls[self.cur].add(f.id)
                return self.binds(args, lambda ns: "(%s %s)" % (self.ident(f.id), " ".join(ns)))
        if isinstance(f, ast.Attribute) and isinstance(f.value, ast.Name) and f.value.id == "np" \
                and f.attr == "searchsorted":
            side = "left"
            for kw in e.keywords:
                if kw.arg == "side" and isinstance(kw.value, ast.Constant) and kw.value.value in ("left", "right"):
                    side = kw.value.value
                else:
                    self.bad(e, "np.searchsorted keyword")
            if len(e.args) != 2:
                self.bad(e, "np.searchsorted arity")
            return self.binds(e.args, lambda ns: "(py_searchsorted_%s %s %s)" % (side, ns[0], ns[1]))
        if self.loops:
            if isinstance(f, ast.Attribute) and isinstance(f.value, ast.Constant) and isinstance(f.value.value, str) and f.attr == "join" \
                    and len(e.args) == 1 and not e.keywords:
                return self.binds(e.args, lambda ns: '(py_join %s %s)' % (self.const(f.value)[6:-1], ns[0]))
            # external call: its behaviour is a hypothesis of the proofs
            args = list(e.args)
            if any(isinstance(a, ast.Starred) for a in args) or any(kw.arg is None for kw in e.keywords):
                self.bad(e, "star arguments")
            if isinstance(f, ast.Name):
                name = f.id
            elif isinstance(f, ast.Attribute) and isinstance(f.value, ast.Name):
                if f.value.id in self.env:
                    name, args = "." + f.attr, [f.value] + args            # method of a local object
                else:
                    name = f.value.id + "." + f.attr                        # function of a module
            else:
                self.bad(e, "call")
            for kw in e.keywords:
                name += "," + kw.arg
                args.append(kw.value)
            self.uses_ext = True
            return self.binds(args, lambda ns: '(ext "%s" [%s])' % (name, "; ".join(ns)))
        self.bad(e, "call")

    # ---- statements ---------------------------------------------------------------------------
    @staticmethod
    def assigned(stmts):
        out = []
        for s in stmts:
            if isinstance(s, ast.Assign):
                for t in s.targets:
                    ns = [t] if isinstance(t, ast.Name) else (list(t.elts) if isinstance(t, ast.Tuple) else
                                                              ([t.value] if isinstance(t, ast.Subscript) else []))
                    for n in ns:
                        if isinstance(n, ast.Name) and n.id not in out:
                            out.append(n.id)
            elif isinstance(s, ast.For):
                for x in Tr.assigned(s.body):
                    if x not in out:
                        out.append(x)
            elif isinstance(s, ast.If):
                for x in Tr.assigned(s.body) + Tr.assigned(s.orelse):
                    if x not in out:
                        out.append(x)
        return out

    def block(self, stmts, k, ind):
        """k: text of the continuation term (type res pv) valid in the current scope"""
        if not stmts:
            return k
        s, rest = stmts[0], stmts[1:]
        pad = "  " * ind
        if isinstance(s, ast.Expr) and isinstance(s.value, ast.Constant) and isinstance(s.value.value, str):
            return self.block(rest, k, ind)        # docstring
        if isinstance(s, ast.Pass):
            return self.block(rest, k, ind)
        if isinstance(s, ast.Return):
            r = "(Ok PNone)" if s.value is None else self.expr(s.value)
            return self.retw(r) if self.retw else r
        if self.loops and isinstance(s, ast.Continue) and self.contk:
            return self.contk()
        if self.loops and isinstance(s, ast.For):
            return self.for_loop(s, rest, k, ind)
        if isinstance(s, ast.Assign) and len(s.targets) == 1 and isinstance(s.targets[0], ast.Tuple):
            tg, val = s.targets[0], s.value
            if not (isinstance(val, ast.Tuple) and len(val.elts) == len(tg.elts) and all(isinstance(n, ast.Name) for n in tg.elts)
                    and len({n.id for n in tg.elts}) == len(tg.elts)):
                self.bad(s, "tuple assignment that is not `a, b = e1, e2` over distinct names")
            later = [{n.id for e_ in val.elts[i + 1:] for n in ast.walk(e_) if isinstance(n, ast.Name)} for i in range(len(val.elts))]
            if any(t.id in later[i] for i, t in enumerate(tg.elts)):
                self.bad(s, "tuple assignment whose right-hand side reads a name assigned earlier in the same statement")
            rhs = [self.expr(e_) for e_ in val.elts]
            saved = set(self.env)
            self.env |= {n.id for n in tg.elts}
            body = self.block(rest, k, ind)
            self.env = saved | {n.id for n in tg.elts}
            for term, n in reversed(list(zip(rhs, tg.elts))):
                body = "(bind %s (fun %s =>\n%s%s))" % (term, self.ident(n.id), pad, body)
            return body
        if self.loops and isinstance(s, ast.Assign) and len(s.targets) == 1 and isinstance(s.targets[0], ast.Subscript):
            t = s.targets[0]
            if not (isinstance(t.value, ast.Name) and t.value.id in self.env and isinstance(t.slice, ast.Constant)
                    and isinstance(t.slice.value, str)):
                self.bad(s, "item assignment that is not name[\"key\"] = e")
            nm = self.ident(t.value.id)
            tmp = self.fresh("t")
            body = self.block(rest, k, ind)
            return '(bind %s (fun %s => bind (py_setitem %s "%s" %s) (fun %s =>\n%s%s)))' % (self.expr(s.value), tmp, nm, t.slice.value, tmp, nm, pad, body)
        if isinstance(s, ast.Assign):
            if len(s.targets) != 1 or not isinstance(s.targets[0], ast.Name):
                self.bad(s, "assignment target")
            rhs = self.expr(s.value)
            name = s.targets[0].id
            saved = set(self.env)
            self.env.add(name)
            body = self.block(rest, k, ind)
            self.env = saved | {name}
            return "(bind %s (fun %s =>\n%s%s))" % (rhs, self.ident(name), pad, body)
        if isinstance(s, ast.If):
            vs = self.assigned(s.body) + [x for x in self.assigned(s.orelse) if x not in self.assigned(s.body)]
            both = []
            if self.loops:
                both = [v for v in self.assigned(s.body) if v in self.assigned(s.orelse) and v not in self.env]
                vs = [v for v in vs if v in self.env or v in both]      # first assigned inside ONE branch: local to it
            for v in vs:
                if v not in self.env and v not in both:
                    self.bad(s, "variable %r first assigned inside an if" % v)
            cond = self.expr(s.test)
            if rest:
                kn = self.fresh("k")
                params = " ".join("(%s : pv)" % self.ident(v) for v in vs) or "(_ : unit)"
                kcall = "(%s %s)" % (kn, " ".join(self.ident(v) for v in vs) or "tt")
                env0 = set(self.env)
                self.env = env0 | set(both)
                rest_t = self.block(rest, k, ind + 1)
                self.env = set(env0)
                a = self.block(s.body, kcall, ind + 1)
                self.env = set(env0)
                b = self.block(s.orelse, kcall, ind + 1)
                self.env = set(env0)
                t = self.fresh("t")
                return ("(let %s := fun %s =>\n%s  %s in\n%sbind %s (fun %s =>\n%sif truthy %s\n%sthen %s\n%selse %s))"
                        % (kn, params, pad, rest_t, pad, cond, t, pad, t, pad, a, pad, b))
            env0 = set(self.env)
            a = self.block(s.body, k, ind + 1)
            self.env = set(env0)
            b = self.block(s.orelse, k, ind + 1)
            self.env = set(env0)
            t = self.fresh("t")
            return "(bind %s (fun %s =>\n%sif truthy %s\n%sthen %s\n%selse %s))" % (cond, t, pad, t, pad, a, pad, b)
        self.bad(s, "statement")

    def for_loop(self, s, rest, k, ind):
        pad = "  " * ind
        if s.orelse:
            self.bad(s, "for ... else")
        tg = s.target
        if isinstance(tg, ast.Name):
            tnames = [tg.id]
        elif isinstance(tg, ast.Tuple) and len(tg.elts) == 2 and all(isinstance(n, ast.Name) for n in tg.elts):
            tnames = [n.id for n in tg.elts]
        else:
            self.bad(s, "loop target")
        carried = [v for v in self.assigned(s.body) if v in self.env and v not in tnames]
        if any(v in self.env for v in tnames):
            self.bad(s, "loop target shadows a bound name")
        tup = lambda: ("tt" if not carried else (self.ident(carried[0]) if len(carried) == 1 else "(%s)" % ", ".join(self.ident(v) for v in carried)))
        unpack = lambda st: ("" if not carried else ("let %s := %s in " % (self.ident(carried[0]), st) if len(carried) == 1
                                                    else "let '(%s) := %s in " % (", ".join(self.ident(v) for v in carried), st)))
        it = self.expr(s.iter)
        l, x, st, r = self.fresh("t"), self.fresh("t"), self.fresh("t"), self.fresh("t")
        saved_env, saved_retw, saved_contk = set(self.env), self.retw, self.contk
        outer_retw = self.retw
        rv = self.fresh("t")
        self.retw = lambda e: "(bind %s (fun %s => Ok (Ret %s)))" % (e, rv, rv)
        self.contk = lambda: "(Ok (Cont %s))" % tup()
        self.env |= set(tnames)
        body = self.block(s.body, "(Ok (Cont %s))" % tup(), ind + 2)
        self.env, self.retw, self.contk = saved_env, saved_retw, saved_contk
        if len(tnames) == 1:
            head = "fun %s %s => %s" % (self.ident(tnames[0]), st, unpack(st))
        else:
            pr = self.fresh("t")
            head = "fun %s %s => %sbind (py_unpack2 %s) (fun %s => let '(%s, %s) := %s in " % (
                x, st, unpack(st), x, pr, self.ident(tnames[0]), self.ident(tnames[1]), pr)
            body += ")"
        loop_fn = "(%s\n%s    %s)" % (head, pad, body)
        if outer_retw is None:
            # a loop at function level: its body becomes a definition of its own (fname_loopK), with the statement
            # "what an iteration does is independent of the state the previous iterations left behind" next to it
            self.nloops += 1
            lname = "%s_loop%d" % (self.ident(self.cur), self.nloops)
            envs = sorted(saved_env)
            sty = "unit" if not carried else ("pv" if len(carried) == 1 else "(%s)%%type" % " * ".join("pv" for _ in carried))
            ps = " ".join(self.ident(v_) for v_ in envs)
            self.lifted.append("(* loop over `%s`, carried from one iteration to the next: [%s] *)\nDefinition %s (%s : pv) : pv -> %s -> res (step %s) :=\n  %s%s.\n"
                               "Definition %s_fresh : Prop := forall (%s x_ : pv) (s1_ s2_ : %s), %s %s x_ s1_ = %s %s x_ s2_.\n"
                               % (ast.unparse(s.iter), ", ".join(carried), lname, ps, sty, sty, self.uses_all(), loop_fn, lname, ps, sty, lname, ps, lname, ps))
            loop_fn = "(%s %s)" % (lname, ps)
        after = self.block(rest, k, ind + 1)
        v = self.fresh("t")
        ret_branch = outer_retw("(Ok %s)" % v) if outer_retw else "(Ok %s)" % v
        return ("(bind (bind %s py_iter) (fun %s =>\n%sbind (py_for %s %s %s) (fun %s =>\n%smatch %s with\n%s| Ret %s => %s\n%s| Cont %s => %s%s\n%send)))"
                % (it, l, pad, l, tup(), loop_fn, r, pad, r, pad, v, ret_branch, pad, st, unpack(st), after, pad))

    def function(self, name):
        d = self.defs[name]
        a = d.args
        if a.vararg or a.kwarg or a.kwonlyargs or a.posonlyargs:
            self.bad(d, "parameter kind")
        for dflt in a.defaults:
            if not isinstance(dflt, ast.Constant) and not self.loops:
                self.bad(dflt, "default value")
        self.cur = name
        self.nloops = 0
        self.lifted = []
        self.env = {x.arg for x in a.args}
        body = self.block(d.body, "(Ok PNone)", 1)
        params = " ".join(self.ident(x.arg) for x in a.args)
        return "".join(self.lifted) + "(* %s:%d *)\nDefinition %s (%s : pv) : res pv :=\n  %s%s.\n" % (
            self.filename.split("/")[-1], d.lineno, self.ident(name), params, self.uses_all(), body)

    def uses_all(self):
        """in loops mode every definition mentions every section variable, so that all of them take the same parameters
        after the section is closed"""
        if not self.loops:
            return ""
        return "let _ := (ext%s) in " % "".join(", " + self.ident(k_) for k_ in sorted(self.known))


def translate(source_path, funcs, module_name="GenFilter", loops=False, known=(), requires=()):
    src = open(source_path).read()
    tree = ast.parse(src, source_path)
    if "keep_rg" in funcs:
        # the OR / AND structure of filter_row_groups: the `any([...])` expression that decides about ONE row group (it occurs
        # twice, for as_idx True / False; both occurrences must be the same) as a function keep_rg(rg, filters, pf) of its own
        frg = [n for n in tree.body if isinstance(n, ast.FunctionDef) and n.name == "filter_row_groups"]
        anys = [n for n in ast.walk(frg[0]) if isinstance(n, ast.Call) and isinstance(n.func, ast.Name) and n.func.id == "any"] if frg else []
        if not anys or len({ast.dump(n) for n in anys}) != 1:
            raise Unsupported("%s: filter_row_groups: expected the same any([...]) decision once per return, found %d different" % (
                source_path, len({ast.dump(n) for n in anys})))
        free = {n.id for n in ast.walk(anys[0]) if isinstance(n, ast.Name)} - {"any", "not", "filter_out_stats", "filter_out_cats"}
        bound = {g.target.id for n in ast.walk(anys[0]) if isinstance(n, (ast.ListComp, ast.GeneratorExp)) for g in n.generators
                 if isinstance(g.target, ast.Name)}
        if not (free - bound) <= {"rg", "filters", "pf"}:
            raise Unsupported("%s: filter_row_groups: the row-group decision reads %s" % (source_path, sorted(free - bound)))
        fn = ast.parse("def keep_rg(rg, filters, pf):\n    return 0\n").body[0]
        fn.body[0].value = anys[0]
        fn.lineno = anys[0].lineno
        tree.body.append(ast.fix_missing_locations(fn))
    tr = Tr(tree, source_path, funcs, known=known, loops=loops)
    texts = {f: tr.function(f) for f in funcs}
    # topological order by calls
    order, seen = [], set()

    def visit(f, stack=()):
        if f in seen:
            return
        if f in stack:
            raise Unsupported("recursive call involving %s" % f)
        for g in sorted(tr.calls[f]):
            visit(g, stack + (f,))
        seen.add(f)
        order.append(f)
    for f in funcs:
        visit(f)
    out = "(* GENERATED by translators/py2coq.py from %s; functions: %s. Do not edit. *)\n" % (
        "fastparquet/" + source_path.split("/")[-1], ", ".join(order))
    out += "From Coq Require Import ZArith List String.\nFrom Pq Require Import Base.PyVal%s.\n" % (" Base.PyObj" if loops else "")
    for r in requires:
        out += r + "\n"
    out += "Import ListNotations.\nOpen Scope string_scope.\nOpen Scope Z_scope.\n\n"
    if loops:
        out += "Section Ext.\n(* every call that is not translated: (ext \"name[,keyword...]\" [arguments]) *)\nVariable ext : string -> list pv -> res pv.\n"
        for kname in sorted(tr.known):
            out += "(* translated elsewhere (PqGen.GenFilter); a parameter here *)\nVariable %s : %sres pv.\n" % (
                tr.ident(kname), "pv -> " * len(tr.known[kname].args.args))
        out += "\n"
    out += "\n".join(texts[f] for f in order)
    if loops:
        out += "\nEnd Ext.\n"
    return out


if __name__ == "__main__":
    path = sys.argv[1]
    fs = sys.argv[2:]
    try:
        sys.stdout.write(translate(path, fs))
    except Unsupported as e:
        sys.stderr.write("py2coq: %s\n" % e)
        sys.exit(2)


def state_inventory(source_path, roots):
    """Inventory of state that outlives one call on the code reachable from `roots` (module-level functions of the file, followed
    through calls by name): (a) module-level names bound to a mutable object ({} [] set() dict() list() OrderedDict() defaultdict()
    WeakValueDictionary() ...) that the code reads or writes; (b) writes to attributes / __dict__ of a PARAMETER of a reached
    function (a memo kept on the handle or on whatever the caller passed).  Item assignment on a local object (the
    `s["converted_max"] = ...` memo on the chunk's own Statistics object) is not listed.  -> {"module": {name: [function...]},
    "param_attr_writes": ["function: target"...], "reached": [...]}"""
    tree = ast.parse(open(source_path).read(), source_path)
    funcs = {n.name: n for n in tree.body if isinstance(n, ast.FunctionDef)}
    mutable = {}
    for n in tree.body:
        if isinstance(n, ast.Assign) and len(n.targets) == 1 and isinstance(n.targets[0], ast.Name):
            v = n.value
            if isinstance(v, (ast.Dict, ast.List, ast.Set, ast.DictComp, ast.ListComp, ast.SetComp)) or (
                    isinstance(v, ast.Call) and isinstance(v.func, (ast.Name, ast.Attribute)) and
                    (v.func.id if isinstance(v.func, ast.Name) else v.func.attr) in
                    ("dict", "list", "set", "OrderedDict", "defaultdict", "WeakValueDictionary", "WeakKeyDictionary", "deque", "Counter")):
                mutable[n.targets[0].id] = n.lineno
    reached, todo = [], [r for r in roots if r in funcs]
    while todo:
        f = todo.pop()
        if f in reached:
            continue
        reached.append(f)
        for n in ast.walk(funcs[f]):
            if isinstance(n, ast.Call) and isinstance(n.func, ast.Name) and n.func.id in funcs:
                todo.append(n.func.id)
    mod, pw = {}, []
    for f in reached:
        d = funcs[f]
        params = {a.arg for a in d.args.args}
        local = {t.id for n in ast.walk(d) if isinstance(n, ast.Assign) for t in n.targets if isinstance(t, ast.Name)}
        for n in ast.walk(d):
            if isinstance(n, ast.Name) and n.id in mutable and n.id not in params and n.id not in local:
                mod.setdefault(n.id, [])
                if f not in mod[n.id]:
                    mod[n.id].append(f)
            tgt = None
            if isinstance(n, (ast.Assign, ast.AugAssign)):
                for t in (n.targets if isinstance(n, ast.Assign) else [n.target]):
                    if isinstance(t, ast.Attribute) and isinstance(t.value, ast.Name) and t.value.id in params:
                        tgt = "%s.%s = ..." % (t.value.id, t.attr)
                    if isinstance(t, ast.Subscript) and isinstance(t.value, ast.Attribute) and t.value.attr == "__dict__" \
                            and isinstance(t.value.value, ast.Name) and t.value.value.id in params:
                        tgt = "%s.__dict__[...] = ..." % t.value.value.id
            if isinstance(n, ast.Call):
                fn = n.func
                if isinstance(fn, ast.Name) and fn.id == "setattr" and n.args and isinstance(n.args[0], ast.Name) and n.args[0].id in params:
                    tgt = "setattr(%s, ...)" % n.args[0].id
                if isinstance(fn, ast.Attribute) and fn.attr in ("setdefault", "update", "__setitem__") and isinstance(fn.value, ast.Attribute) \
                        and fn.value.attr == "__dict__" and isinstance(fn.value.value, ast.Name) and fn.value.value.id in params:
                    tgt = "%s.__dict__.%s(...)" % (fn.value.value.id, fn.attr)
            if tgt and "%s: %s" % (f, tgt) not in pw:
                pw.append("%s: %s" % (f, tgt))
    return {"module": mod, "param_attr_writes": pw, "reached": sorted(reached)}


def dirtext_decoders(api_path, core_path):
    """Inventory: what each of the three parsers of partition-directory text applies to the raw text BEFORE the typing functions
    (val_to_num / val_from_meta): api._path_to_cats (labels), core.read_row_group (the codes / cells of the partition columns),
    api.filter_out_cats (what a filter constant is compared with).  A decoding (percent-unquoting, stripping, case folding ...) present
    in one and absent in another makes a condition on the label a dataset reports miss exactly its rows.
    -> {"labels": [...], "cells": [...], "filter": [...]} (names of the functions / methods the text variable is reassigned through,
    in order), or a value None for a parser whose text variable was not found (fail closed: nothing is claimed for it)."""
    TYPING = {"val_to_num", "val_from_meta", "_val_to_num"}

    def fn(tree, name):
        for n in ast.walk(tree):
            if isinstance(n, ast.FunctionDef) and n.name == name:
                return n
        return None

    def reassigns(func, var):
        out = []
        for n in ast.walk(func):
            if isinstance(n, ast.Assign) and len(n.targets) == 1 and isinstance(n.targets[0], ast.Name) and n.targets[0].id == var \
                    and isinstance(n.value, ast.Call):
                uses = any(isinstance(x, ast.Name) and x.id == var for x in ast.walk(n.value))
                f = n.value.func
                nm = f.id if isinstance(f, ast.Name) else (f.attr if isinstance(f, ast.Attribute) else "?")
                if uses and nm not in TYPING:
                    out.append((n.lineno, nm))
            # a conditional expression around the call: val = f(val) if ... else val
            if isinstance(n, ast.Assign) and len(n.targets) == 1 and isinstance(n.targets[0], ast.Name) and n.targets[0].id == var \
                    and isinstance(n.value, ast.IfExp):
                for c in (n.value.body, n.value.orelse):
                    if isinstance(c, ast.Call):
                        f = c.func
                        nm = f.id if isinstance(f, ast.Name) else (f.attr if isinstance(f, ast.Attribute) else "?")
                        if nm not in TYPING:
                            out.append((n.lineno, nm))
        return [nm for _, nm in sorted(out)]

    def loop_var(func, iter_name, idx):
        for n in ast.walk(func):
            if isinstance(n, ast.For) and isinstance(n.iter, ast.Name) and n.iter.id == iter_name and isinstance(n.target, ast.Tuple) \
                    and len(n.target.elts) == 2 and isinstance(n.target.elts[idx], ast.Name):
                return n.target.elts[idx].id
        return None

    api_t = ast.parse(open(api_path).read(), api_path)
    core_t = ast.parse(open(core_path).read(), core_path)
    res = {"labels": None, "cells": None, "filter": None}
    f = fn(api_t, "_path_to_cats")
    if f is not None:
        v = loop_var(f, "hivehits", 1)
        if v:
            res["labels"] = reassigns(f, v)
    f = fn(api_t, "filter_out_cats")
    if f is not None:
        v = loop_var(f, "pairs", 1)
        if v:
            res["filter"] = reassigns(f, v)
    f = fn(core_t, "read_row_group")
    if f is not None:
        for n in ast.walk(f):
            if isinstance(n, ast.Assign) and len(n.targets) == 1 and isinstance(n.targets[0], ast.Tuple) and len(n.targets[0].elts) == 2 \
                    and all(isinstance(e, ast.Name) for e in n.targets[0].elts) and isinstance(n.value, ast.Subscript):
                res["cells"] = reassigns(f, n.targets[0].elts[1].id)
                break
    return res


def memo_publication(source_path, roots):
    """Inventory: item stores `obj[key] = value` (memo slots on objects other callers / threads can read) on the code reached from
    `roots`.  A slot must be PUBLISHED ONCE with its final value: offenders are (a) a function that stores into the same slot
    expression more than once, (b) a store whose value reads the slot it writes (`s[k] = convert(s[k], se)`: an intermediate value was
    visible in between).  -> {"stores": ["function: slot"...], "offenders": [...]}"""
    tree = ast.parse(open(source_path).read(), source_path)
    funcs = {n.name: n for n in tree.body if isinstance(n, ast.FunctionDef)}
    reached, todo = [], [r for r in roots if r in funcs]
    while todo:
        f = todo.pop()
        if f in reached:
            continue
        reached.append(f)
        for n in ast.walk(funcs[f]):
            if isinstance(n, ast.Call) and isinstance(n.func, ast.Name) and n.func.id in funcs:
                todo.append(n.func.id)
    stores, off = [], []
    for f in sorted(reached):
        seen = {}
        for n in ast.walk(funcs[f]):
            if isinstance(n, (ast.Assign, ast.AugAssign)):
                for t in (n.targets if isinstance(n, ast.Assign) else [n.target]):
                    if isinstance(t, ast.Subscript) and isinstance(t.value, ast.Name):
                        slot = ast.unparse(t)
                        stores.append("%s: %s" % (f, slot))
                        seen[slot] = seen.get(slot, 0) + 1
                        reads_self = any(isinstance(x, ast.Subscript) and ast.unparse(x) == slot for x in ast.walk(n.value)) \
                            or isinstance(n, ast.AugAssign)
                        if reads_self:
                            off.append("%s: %s is overwritten from its own earlier content (line %d)" % (f, slot, n.lineno))
        for slot, k in seen.items():
            if k > 1:
                off.append("%s: %s is stored %d times" % (f, slot, k))
    return {"stores": stores, "offenders": off}
