"""paths2coq: Python `ast` -> Gallina for the pure path functions the models of C08 / C14 mirror by hand.

    util.analyse_paths            -> gen_analyse_paths      (common base path + relative paths; C14)
    util._strip_path_tail         -> gen_strip_tail          (per element of the set comprehension; C08 reader)
    util.path_string              -> gen_path_string         (text of a partition value, hive; C08)
    util._val_to_num              -> gen_val_to_num          (the ORDER of the guesses for untyped directory texts; C08 drill)
    writer.partition_on_columns   -> gen_dir_path / gen_relname   (directory naming only: the `path = join_path(...)` and
                                                                   `relname = join_path(path, partname)` statements)
    util.val_from_meta            -> gen_bool_true_texts     (inventory: the texts the bool branch accepts as True)
                                     gen_val_from_meta       (the dispatch: categorical / datetimetz / bool / numpy scalar, the ValueError handler)
    core.read_row_group           -> gen_row_partitions / gen_row_value / gen_row_cell   (the partition-column fill)
    util.metadata_from_many       -> gen_verify_raises       (verify_schema: which files are compared with which, by `!=` on the lists of
                                                              SchemaElement objects - not on a rendering of them)
    util.metadata_from_many       -> gen_fast_rel            (fast path only: the relative path `f[len(basepath):].lstrip("/")` stored in
                                                              the first chunk of every row group; both occurrences must agree)
    api._path_to_cats             -> gen_hive_hits / gen_drill_hits / gen_add_hit / gen_final_cats / gen_path_to_cats
                                                             (the loop skeleton is checked against a template; the hit extraction, the
                                                              body of the inner loop - by symbolic execution over the four containers
                                                              seen / string_types / cats / raw, so the order of independent statements
                                                              does not matter - and the return expression are translated)
    api.paths_to_cats             -> gen_paths_to_cats       (guards, scheme detection, hive attempt, drill only after ValueError;
                                                              `_path_to_cats` is a parameter, `_strip_path_tail(paths)` - a set - is
                                                              the parameter `dirs` holding its elements in iteration order)

Output: Gen/GenPaths.v (logical root PqGen) over the vocabulary of coq/theories/Impl/Partition.v (str = list ascii, split_on,
join_with, join_path, parse_int, lower, mem_str, value, ...) and coq/theories/Impl/PyPaths.v (py_find_break, py_format,
py_rsplit1_head, py_is_timestamp, py_isoformat, py_str).  The theorems of coq/genproofs/GenPathsProofs.v are re-proved on this
text on every run.  FAIL CLOSED, PER FUNCTION (translate_units): every function above is a unit; a construct outside the fragment below
raises Unsupported with the source location for THAT unit (and the units that call it) only - the check leaves it to the hand model +
correspondence, records `translator_fallback` with the reason, and compiles the proof blocks (`(* @needs unit ... *)`) of the other units.

Fragment
  types        str | list str | list (list str) | list (A * B) | nat | bool | value | list value | option str (parameter `root`)
  expressions  names; str / non-negative int constants; len(e); e + e, e - e on numbers (len(x) - 1 is natural-number subtraction:
               the operand is a result of str.split, never empty); e[:e], e[e:], e[:-1]; 'c'.join(e); e.split('c');
               e.rsplit('c', 1)[0]; join_path(e, ...), join_path(*generator); zip(e, e); [e for x in e] / generator (one
               `for`, optional `if "c" in x`); all(generator); e == e, e != e (by type); "c" in e; e.lower(); x in [str consts];
               type(x) == str (true: texts); isinstance(o, pd.Timestamp); o.isoformat(); str(o); "%s.." % e / % (e, ...);
               calls of translated functions; e if c else e; max(e); len(set(e)); e < e, e > e on numbers; truth value of a
               text / list (non-empty); x in [None, ""] (None stands for the empty text: a missing file_path)
  statements   x = e; x = y[0][...] (IndexError on an empty list); if / else (the rest of the block is continued in both
               branches); `if root is False` (root : option str, None stands for False); assert all(...);
               for [i,] x in [enumerate](L): BODY   (BODY re-binds variables bound before the loop: a fold);
               for k, (a, b) in enumerate(zip(X, Y)): if c: j = k; break      (py_find_break);
               x = []; for y in L: x.append(e)            (map);
               return e | return e, e;  if c: return e;  try: return f(x) / except: pass | return x   (guess chains)
               (paths_to_cats only)  return "scheme", {};  try: return "hive", _path_to_cats(...) / except ValueError: return "drill", ...
"""
import ast


class Unsupported(Exception):
    pass


def _bad(node, what):
    raise Unsupported("%s at line %s: %s" % (what, getattr(node, "lineno", "?"),
                                              ast.dump(node)[:200] if isinstance(node, ast.AST) else node))


KW = {"in", "as", "at", "end", "fix", "fun", "if", "let", "match", "return", "then", "else", "with", "forall", "exists",
      "Type", "Prop", "Set", "cofix", "for", "where", "using", "value", "str", "list", "nat", "bool"}


def ident(n):
    return n + "_" if n in KW else n


def chr_const(c, node):
    if len(c) != 1 or ord(c) > 126 or ord(c) < 32 or c == '"':
        _bad(node, "separator character")
    return '"%s"%%char' % c


def str_const(s, node):
    if any(ord(ch) > 126 or ord(ch) < 32 for ch in s):
        _bad(node, "non-ASCII string constant")
    return "[]" if s == "" else '(s_ "%s")' % s.replace('"', '""')


def eqb_of(t, node):
    if t == "str":
        return "str_eqb"
    if t == "nat":
        return "Nat.eqb"
    if t.startswith("list "):
        inner = t[5:]
        if inner.startswith("(") and inner.endswith(")"):
            inner = inner[1:-1]
        return "(list_eqb %s)" % eqb_of(inner, node)
    _bad(node, "comparison at type %s" % t)


def elem_type(t, node):
    if not t.startswith("list "):
        _bad(node, "iteration over a value of type %s" % t)
    inner = t[5:]
    return inner[1:-1] if inner.startswith("(") and inner.endswith(")") else inner


def list_of(t):
    return "list (%s)" % t if " " in t else "list " + t


class Fn:
    """translation of one function body"""

    def __init__(self, name, funcs):
        self.name = name
        self.funcs = funcs          # translated functions callable from here: python name -> (gallina name, [arg types], result type)

    # ------------------------------------------------------------------------------------------ expressions
    def E(self, e, env):
        """-> (Gallina term, type)"""
        if isinstance(e, ast.Name):
            if e.id not in env:
                _bad(e, "unbound name %s" % e.id)
            return ident(e.id), env[e.id]
        if isinstance(e, ast.Constant):
            if isinstance(e.value, bool):
                return ("true" if e.value else "false"), "bool"
            if isinstance(e.value, str):
                return str_const(e.value, e), "str"
            if isinstance(e.value, int) and e.value >= 0:
                return str(e.value), "nat"
            _bad(e, "constant")
        if isinstance(e, ast.IfExp):
            c = self.B(e.test, env)
            a, ta = self.E(e.body, env)
            b, tb = self.E(e.orelse, env)
            if ta != tb:
                _bad(e, "branches of different types %s / %s" % (ta, tb))
            return "(if %s then %s else %s)" % (c, a, b), ta
        if isinstance(e, ast.BinOp) and isinstance(e.op, (ast.Add, ast.Sub)):
            a, ta = self.E(e.left, env)
            b, tb = self.E(e.right, env)
            if ta != "nat" or tb != "nat":
                _bad(e, "arithmetic on %s, %s" % (ta, tb))
            return "(%s %s %s)" % (a, "+" if isinstance(e.op, ast.Add) else "-", b), "nat"
        if isinstance(e, ast.BinOp) and isinstance(e.op, ast.Mod) and isinstance(e.left, ast.Constant) and isinstance(e.left.value, str):
            pieces = e.left.value.split("%s")
            if "%" in "".join(pieces):
                _bad(e, "format other than %s")
            args = e.right.elts if isinstance(e.right, ast.Tuple) else [e.right]
            if len(args) != len(pieces) - 1:
                _bad(e, "format arity")
            targs = [self.as_text(a, env) for a in args]
            return "(py_format [%s] [%s])" % ("; ".join(str_const(p, e) for p in pieces), "; ".join(targs)), "str"
        if isinstance(e, ast.Subscript):
            return self.subscript(e, env)
        if isinstance(e, (ast.ListComp, ast.GeneratorExp)):
            return self.comprehension(e, env)
        if isinstance(e, ast.Call):
            return self.call(e, env)
        if isinstance(e, (ast.Compare, ast.BoolOp)) or (isinstance(e, ast.UnaryOp) and isinstance(e.op, ast.Not)):
            return self.B(e, env), "bool"
        _bad(e, "unsupported expression")

    def as_text(self, a, env):
        """an argument of a %s conversion"""
        t, ty = self.E(a, env)
        if ty == "str":
            return t
        if ty == "value":
            return "(py_str %s)" % t
        _bad(a, "%%s of a value of type %s" % ty)

    def subscript(self, e, env):
        v, tv = self.E(e.value, env)
        s = e.slice
        if isinstance(s, ast.Slice) and s.step is None:
            if not (tv.startswith("list ") or tv == "str"):
                _bad(e, "slice of %s" % tv)
            if s.lower is None and s.upper is not None:
                if isinstance(s.upper, ast.UnaryOp) and isinstance(s.upper.op, ast.USub) and isinstance(s.upper.operand, ast.Constant) \
                        and s.upper.operand.value == 1:
                    return "(removelast %s)" % v, tv
                u, tu = self.E(s.upper, env)
                if tu != "nat":
                    _bad(e, "slice bound of type %s" % tu)
                return "(firstn %s %s)" % (u, v), tv
            if s.upper is None and s.lower is not None:
                lo, tl = self.E(s.lower, env)
                if tl != "nat":
                    _bad(e, "slice bound of type %s" % tl)
                return "(skipn %s %s)" % (lo, v), tv
        _bad(e, "subscript (only x[:e], x[e:], x[:-1]; x[0] as the whole right-hand side of an assignment)")

    def comprehension(self, e, env):
        if len(e.generators) != 1 or e.generators[0].is_async:
            _bad(e, "comprehension shape")
        g = e.generators[0]
        src, ts = self.E(g.iter, env)
        et = elem_type(ts, e)
        pat, env2 = self.pattern(g.target, et, env)
        if g.ifs:
            conds = " && ".join(self.B(c, env2) for c in g.ifs)
            src = "(filter (fun %s => %s) %s)" % (pat, conds, src)
        body, tb = self.E(e.elt, env2)
        return "(map (fun %s => %s) %s)" % (pat, body, src), list_of(tb)

    def pattern(self, target, et, env):
        env2 = dict(env)
        if isinstance(target, ast.Name):
            env2[target.id] = et
            return ident(target.id), env2
        if isinstance(target, ast.Tuple) and len(target.elts) == 2 and all(isinstance(x, ast.Name) for x in target.elts):
            if not (et.count("*") == 1):
                _bad(target, "tuple pattern over elements of type %s" % et)
            ta, tb = [x.strip() for x in et.split("*")]
            env2[target.elts[0].id] = ta
            env2[target.elts[1].id] = tb
            return "'(%s, %s)" % (ident(target.elts[0].id), ident(target.elts[1].id)), env2
        _bad(target, "loop / comprehension target")

    def call(self, e, env):
        f = e.func
        if e.keywords and not (isinstance(f, ast.Name) and f.id == "int"):
            _bad(e, "keyword arguments")
        if isinstance(f, ast.Name):
            if f.id == "len" and len(e.args) == 1 and isinstance(e.args[0], ast.Call) and isinstance(e.args[0].func, ast.Name) \
                    and e.args[0].func.id == "set" and len(e.args[0].args) == 1:
                a, ta = self.E(e.args[0].args[0], env)
                if ta != "list nat":
                    _bad(e, "len(set(%s))" % ta)
                return "(py_distinct_count %s)" % a, "nat"
            if f.id == "len" and len(e.args) == 1:
                a, ta = self.E(e.args[0], env)
                # len / slices of a text count UTF-8 bytes in the model and code points in Python: the translated uses cut a text
                # after a prefix of itself (f[len(basepath):] with f = basepath + ...), where the two agree
                if not (ta.startswith("list ") or ta == "str"):
                    _bad(e, "len of %s" % ta)
                return "(length %s)" % a, "nat"
            if f.id == "max" and len(e.args) == 1:
                a, ta = self.E(e.args[0], env)
                if ta != "list nat":
                    _bad(e, "max of %s" % ta)
                return "(list_max %s)" % a, "nat"
            if f.id == "zip" and len(e.args) == 2:
                a, ta = self.E(e.args[0], env)
                b, tb = self.E(e.args[1], env)
                return "(combine %s %s)" % (a, b), "list (%s * %s)" % (elem_type(ta, e), elem_type(tb, e))
            if f.id == "join_path":
                if len(e.args) == 1 and isinstance(e.args[0], ast.Starred):
                    a, ta = self.E(e.args[0].value, env)
                    if ta != "list str":
                        _bad(e, "join_path(*%s)" % ta)
                    return "(join_path %s)" % a, "str"
                parts = []
                for a in e.args:
                    t, ty = self.E(a, env)
                    if ty != "str":
                        _bad(e, "join_path argument of type %s" % ty)
                    parts.append(t)
                return "(join_path [%s])" % "; ".join(parts), "str"
            if f.id == "str" and len(e.args) == 1:
                return self.as_text(e.args[0], env), "str"
            if f.id == "all" and len(e.args) == 1 and isinstance(e.args[0], ast.GeneratorExp):
                return self.B(e, env), "bool"
            if f.id in self.funcs:
                g, targs, tres = self.funcs[f.id]
                if len(e.args) != len(targs):
                    _bad(e, "arity of %s" % f.id)
                args = []
                for a, want in zip(e.args, targs):
                    t, ty = self.E(a, env)
                    if ty != want:
                        _bad(e, "argument of type %s where %s is expected" % (ty, want))
                    args.append(t)
                return "(%s %s)" % (g, " ".join(args)), tres
        if isinstance(f, ast.Attribute):
            if f.attr == "join" and isinstance(f.value, ast.Constant) and isinstance(f.value.value, str) and len(e.args) == 1:
                a, ta = self.E(e.args[0], env)
                if ta != "list str":
                    _bad(e, "join of %s" % ta)
                return "(join_with %s %s)" % (chr_const(f.value.value, e), a), "str"
            if f.attr == "split" and len(e.args) == 1 and isinstance(e.args[0], ast.Constant):
                a, ta = self.E(f.value, env)
                if ta != "str":
                    _bad(e, "split of %s" % ta)
                return "(split_on %s %s)" % (chr_const(e.args[0].value, e), a), "list str"
            if f.attr == "lstrip" and len(e.args) == 1 and isinstance(e.args[0], ast.Constant) and isinstance(e.args[0].value, str) \
                    and len(e.args[0].value) == 1:
                a, ta = self.E(f.value, env)
                if ta != "str":
                    _bad(e, "lstrip of %s" % ta)
                return "(drop_while (Ascii.eqb %s) %s)" % (chr_const(e.args[0].value, e), a), "str"
            if f.attr == "lower" and not e.args:
                a, ta = self.E(f.value, env)
                if ta != "str":
                    _bad(e, "lower of %s" % ta)
                return "(lower %s)" % a, "str"
            if f.attr == "isoformat" and not e.args:
                a, ta = self.E(f.value, env)
                if ta != "value":
                    _bad(e, "isoformat of %s" % ta)
                return "(py_isoformat %s)" % a, "str"
        _bad(e, "unsupported call")

    # ------------------------------------------------------------------------------------------ conditions
    def B(self, e, env):
        if isinstance(e, ast.BoolOp):
            op = " && " if isinstance(e.op, ast.And) else " || "
            return "(" + op.join(self.B(v, env) for v in e.values) + ")"
        if isinstance(e, ast.UnaryOp) and isinstance(e.op, ast.Not):
            return "(negb %s)" % self.B(e.operand, env)
        if isinstance(e, ast.Compare) and len(e.ops) == 1:
            op, left, right = e.ops[0], e.left, e.comparators[0]
            if isinstance(op, ast.In):
                if isinstance(left, ast.Constant) and isinstance(left.value, str) and len(left.value) == 1:
                    r, tr_ = self.E(right, env)
                    if tr_ != "str":
                        _bad(e, "character membership in %s" % tr_)
                    return "(has_char %s %s)" % (chr_const(left.value, e), r)
                if isinstance(right, ast.List) and all(isinstance(x, ast.Constant) and (isinstance(x.value, str) or x.value is None) for x in right.elts):
                    a, ta = self.E(left, env)
                    if ta != "str":
                        _bad(e, "membership of %s" % ta)
                    # None (a row group without file_path) stands for the empty text in the model
                    return "(mem_str %s [%s])" % (a, "; ".join(str_const(x.value or "", x) for x in right.elts))
                _bad(e, "membership test")
            if isinstance(op, (ast.Eq, ast.NotEq)):
                # type(x) == str: the model's inputs are texts
                if isinstance(left, ast.Call) and isinstance(left.func, ast.Name) and left.func.id == "type" and \
                        isinstance(right, ast.Name) and right.id == "str":
                    a, ta = self.E(left.args[0], env)
                    if ta != "str":
                        _bad(e, "type() of %s" % ta)
                    return "true" if isinstance(op, ast.Eq) else "false"
                a, ta = self.E(left, env)
                b, tb = self.E(right, env)
                if ta != tb:
                    _bad(e, "comparison of %s with %s" % (ta, tb))
                t = "(%s %s %s)" % (eqb_of(ta, e), a, b)
                return t if isinstance(op, ast.Eq) else "(negb %s)" % t
            if isinstance(op, (ast.Lt, ast.Gt)):
                a, ta = self.E(left, env)
                b, tb = self.E(right, env)
                if ta != "nat" or tb != "nat":
                    _bad(e, "order comparison of %s with %s" % (ta, tb))
                return "(%s <? %s)" % ((a, b) if isinstance(op, ast.Lt) else (b, a))
            _bad(e, "comparison operator")
        if isinstance(e, ast.Call) and isinstance(e.func, ast.Name) and e.func.id == "all" and len(e.args) == 1 \
                and isinstance(e.args[0], ast.GeneratorExp):
            g = e.args[0]
            if len(g.generators) != 1 or g.generators[0].ifs:
                _bad(e, "all(...) shape")
            src, ts = self.E(g.generators[0].iter, env)
            pat, env2 = self.pattern(g.generators[0].target, elem_type(ts, e), env)
            return "(forallb (fun %s => %s) %s)" % (pat, self.B(g.elt, env2), src)
        if isinstance(e, ast.Call) and isinstance(e.func, ast.Name) and e.func.id == "isinstance" and len(e.args) == 2:
            a, ta = self.E(e.args[0], env)
            cls = ast.unparse(e.args[1])
            if ta == "value" and cls == "pd.Timestamp":
                return "(py_is_timestamp %s)" % a
            _bad(e, "isinstance(%s, %s)" % (ta, cls))
        t, ty = self.E(e, env)
        if ty == "str":
            return "(nonempty %s)" % t           # truth value of a text
        if ty.startswith("list "):
            return "(py_nonempty_list %s)" % t   # truth value of a list
        if ty != "bool":
            _bad(e, "condition of type %s" % ty)
        return t

    # ------------------------------------------------------------------------------------------ statements
    def block(self, stmts, env, ret):
        """stmts end in a return on every path; `ret(values)` builds the result term. -> Gallina term"""
        if not stmts:
            _bad(self.name, "a path through the function does not return")
        s, rest = stmts[0], stmts[1:]
        if isinstance(s, ast.Expr) and isinstance(s.value, ast.Constant) and isinstance(s.value.value, str):
            return self.block(rest, env, ret)            # docstring
        if isinstance(s, ast.Pass):
            return self.block(rest, env, ret)
        if isinstance(s, ast.Return):
            vals = s.value.elts if isinstance(s.value, ast.Tuple) else [s.value]
            return ret([self.E(v, env) for v in vals], s)
        if isinstance(s, ast.Assert):
            return "if %s\n  then %s\n  else %s" % (self.B(s.test, env), self.block(rest, env, ret), ret("AssertionError", s))
        if isinstance(s, ast.Assign) and len(s.targets) == 1 and isinstance(s.targets[0], ast.Name):
            name = s.targets[0].id
            v = s.value
            # x = [] ; for y in L: x.append(e)
            if isinstance(v, ast.List) and not v.elts and rest and isinstance(rest[0], ast.For):
                f = rest[0]
                if len(f.body) == 1 and isinstance(f.body[0], ast.Expr) and isinstance(f.body[0].value, ast.Call) and \
                        isinstance(f.body[0].value.func, ast.Attribute) and f.body[0].value.func.attr == "append" and \
                        isinstance(f.body[0].value.func.value, ast.Name) and f.body[0].value.func.value.id == name and not f.orelse:
                    src, ts = self.E(f.iter, env)
                    pat, env2 = self.pattern(f.target, elem_type(ts, f), env)
                    body, tb = self.E(f.body[0].value.args[0], env2)
                    env3 = dict(env)
                    env3[name] = list_of(tb)
                    return "let %s := map (fun %s => %s) %s in\n  %s" % (ident(name), pat, body, src, self.block(rest[1:], env3, ret))
                _bad(s, "empty list that is not filled by an append loop")
            # x = y[0]<slices>: IndexError on an empty list
            head = self.first_element(v)
            if head is not None:
                lst, wrap = head
                l, tl = self.E(lst, env)
                tmp = "%s_0" % ident(name)
                env2 = dict(env)
                env2[tmp] = elem_type(tl, s)
                t, ty = self.E(wrap(ast.Name(id=tmp, ctx=ast.Load())), env2)
                env3 = dict(env)
                env3[name] = ty
                return "match %s with\n  | [] => %s\n  | %s :: _ =>\n  let %s := %s in\n  %s\n  end" % (
                    l, ret("IndexError", s), tmp, ident(name), t, self.block(rest, env3, ret))
            t, ty = self.E(v, env)
            env2 = dict(env)
            env2[name] = ty
            return "let %s := %s in\n  %s" % (ident(name), t, self.block(rest, env2, ret))
        if isinstance(s, ast.If):
            # `root is False`: root : option str, None stands for False, the else branch sees the string
            t = s.test
            if isinstance(t, ast.Compare) and len(t.ops) == 1 and isinstance(t.ops[0], ast.Is) and isinstance(t.left, ast.Name) \
                    and isinstance(t.comparators[0], ast.Constant) and t.comparators[0].value is False and env.get(t.left.id) == "option str":
                env2 = dict(env)
                env2[t.left.id] = "str"
                return "match %s with\n  | None =>\n  %s\n  | Some %s =>\n  %s\n  end" % (
                    ident(t.left.id), self.block(s.body + rest, env, ret), ident(t.left.id), self.block(s.orelse + rest, env2, ret))
            return "if %s\n  then %s\n  else %s" % (self.B(t, env), self.block(s.body + rest, env, ret), self.block(s.orelse + rest, env, ret))
        if isinstance(s, ast.For) and not s.orelse:
            return self.for_loop(s, rest, env, ret)
        if isinstance(s, ast.Try):
            # try: return f(x) / except: pass | except: return e      (bare except or `except Exception`)
            if len(s.body) == 1 and isinstance(s.body[0], ast.Return) and len(s.handlers) == 1 and not s.orelse and not s.finalbody \
                    and (s.handlers[0].type is None or ast.unparse(s.handlers[0].type) == "Exception"):
                conv = self.conversion(s.body[0].value, env)
                h = s.handlers[0].body
                if len(h) == 1 and isinstance(h[0], ast.Pass):
                    other = self.block(rest, env, ret)
                elif len(h) == 1 and isinstance(h[0], ast.Return):
                    other = self.block(h, env, ret)
                else:
                    _bad(s, "exception handler")
                return "match %s with\n  | Some converted => %s\n  | None =>\n  %s\n  end" % (conv[0], ret([(conv[1], "value")], s), other)
            _bad(s, "try statement")
        _bad(s, "unsupported statement")

    def conversion(self, e, env):
        """a conversion of a text that may raise -> (option-valued term, constructor applied to `converted`)"""
        if isinstance(e, ast.Call) and len(e.args) == 1:
            a, ta = self.E(e.args[0], env)
            if ta != "str":
                _bad(e, "conversion of %s" % ta)
            fn = ast.unparse(e.func)
            kws = {k.arg: ast.unparse(k.value) for k in e.keywords}
            if fn == "int" and kws in ({"base": "10"}, {}):
                return "parse_int %s" % a, "(VInt converted)"
            if fn == "float" and not kws:
                return "parse_float false %s" % a, "(VFloat converted)"
            if fn == "pd.Timestamp" and not kws:
                return "parse_time_pd %s" % a, "(VTime converted)"
            if fn == "pd.Timedelta" and not kws:
                return "parse_delta %s" % a, "(VDelta converted)"
        _bad(e, "conversion")

    @staticmethod
    def first_element(v):
        """v = NAME[0] or NAME[0][slice] -> (NAME node, wrapper building the rest around a name)"""
        if isinstance(v, ast.Subscript) and isinstance(v.slice, ast.Constant) and v.slice.value == 0:
            return v.value, (lambda n: n)
        if isinstance(v, ast.Subscript) and isinstance(v.value, ast.Subscript) and isinstance(v.value.slice, ast.Constant) \
                and v.value.slice.value == 0 and isinstance(v.slice, ast.Slice):
            return v.value.value, (lambda n, v=v: ast.Subscript(value=n, slice=v.slice, ctx=ast.Load()))
        return None

    def for_loop(self, s, rest, env, ret):
        it, tgt = s.iter, s.target
        # for k, (a, b) in enumerate(zip(X, Y)): if c: j = k; break
        if isinstance(it, ast.Call) and isinstance(it.func, ast.Name) and it.func.id == "enumerate" and len(it.args) == 1 \
                and isinstance(tgt, ast.Tuple) and len(tgt.elts) == 2 and isinstance(tgt.elts[0], ast.Name) \
                and len(s.body) == 1 and isinstance(s.body[0], ast.If) and not s.body[0].orelse \
                and len(s.body[0].body) == 2 and isinstance(s.body[0].body[1], ast.Break):
            a = s.body[0].body[0]
            if isinstance(a, ast.Assign) and len(a.targets) == 1 and isinstance(a.targets[0], ast.Name) and isinstance(a.value, ast.Name) \
                    and a.value.id == tgt.elts[0].id and a.targets[0].id in env and env[a.targets[0].id] == "nat":
                src, ts = self.E(it.args[0], env)
                pat, env2 = self.pattern(tgt.elts[1], elem_type(ts, s), env)
                j = ident(a.targets[0].id)
                return "let %s := py_find_break (fun %s => %s) %s 0 %s in\n  %s" % (
                    j, pat, self.B(s.body[0].test, env2), src, j, self.block(rest, env, ret))
        # for [i,] x in [enumerate](L): BODY re-binding variables bound before the loop (the index unused)
        if isinstance(it, ast.Call) and isinstance(it.func, ast.Name) and it.func.id == "enumerate" and len(it.args) == 1 \
                and isinstance(tgt, ast.Tuple) and len(tgt.elts) == 2 and isinstance(tgt.elts[0], ast.Name):
            idx = tgt.elts[0].id
            if any(isinstance(n, ast.Name) and n.id == idx for b in s.body for n in ast.walk(b)):
                _bad(s, "loop index used in the body")
            it, tgt = it.args[0], tgt.elts[1]
        src, ts = self.E(it, env)
        pat, env2 = self.pattern(tgt, elem_type(ts, s), env)
        assigned = []
        for b in s.body:
            for n in ast.walk(b):
                if isinstance(n, (ast.Break, ast.Continue, ast.Return)) and not self.inside_inner_loop(s, n):
                    _bad(s, "break / continue / return in a fold loop")
                if isinstance(n, ast.Assign):
                    for t in n.targets:
                        if isinstance(t, ast.Name) and t.id not in assigned:
                            assigned.append(t.id)
        state = [v for v in assigned if v in env]
        local = [v for v in assigned if v not in env]
        if len(state) != 1:
            _bad(s, "a fold loop must re-bind exactly one variable bound before it (found %r)" % state)
        for v in local:            # Python leaks loop locals; they must not be read after the loop
            if any(isinstance(n, ast.Name) and n.id == v and isinstance(n.ctx, ast.Load) for r in rest for n in ast.walk(r)):
                _bad(s, "loop-local %s read after the loop" % v)
        st = state[0]
        body = self.block(list(s.body) + [ast.Return(value=ast.Name(id=st, ctx=ast.Load()))], env2,
                          lambda vals, node: vals[0][0] if isinstance(vals, list) else _bad(node, "error exit inside a loop"))
        return "let %s := fold_left (fun (%s : %s) %s =>\n    %s) %s %s in\n  %s" % (
            ident(st), ident(st), env[st], pat if pat.startswith("'") else "(%s : %s)" % (pat, elem_type(ts, s)), body, src, ident(st),
            self.block(rest, env, ret))

    @staticmethod
    def inside_inner_loop(outer, node):
        for b in outer.body:
            for n in ast.walk(b):
                if isinstance(n, ast.For) and any(m is node for m in ast.walk(n)):
                    return True
        return False


SCHEMES = {"empty": "Empty", "simple": "Simple", "flat": "Flat", "other": "Other", "hive": "Hive", "drill": "Drill"}


class FnCats(Fn):
    """api.paths_to_cats: returns ("scheme", cats); `_path_to_cats` is the parameter path_to_cats_ (hive? -> metadata ->
    zip(paths, parts) -> res cats), `_strip_path_tail(paths)` the parameter dirs"""

    def __init__(self, name, default_scheme):
        Fn.__init__(self, name, {})
        self.default_scheme = default_scheme

    def E(self, e, env):
        if isinstance(e, ast.Dict) and not e.keys:
            return "[]", "cats"
        return Fn.E(self, e, env)

    def call(self, e, env):
        f = e.func
        if isinstance(f, ast.Name) and f.id == "_strip_path_tail" and len(e.args) == 1 and not e.keywords:
            a, ta = self.E(e.args[0], env)
            if a != "paths" or ta != "list str":
                _bad(e, "_strip_path_tail of something else than the parameter paths")
            return "dirs", "list str"
        if isinstance(f, ast.Name) and f.id == "_path_to_cats":
            if len(e.args) not in (2, 3) or [k.arg for k in e.keywords] != ["partition_meta"]:
                _bad(e, "call of _path_to_cats")
            a, ta = self.E(e.args[0], env)
            b, tb = self.E(e.args[1], env)
            if ta != "list str" or tb != "list (list str)":
                _bad(e, "_path_to_cats(%s, %s)" % (ta, tb))
            scheme = self.default_scheme
            if len(e.args) == 3:
                if not (isinstance(e.args[2], ast.Constant) and e.args[2].value in ("hive", "drill")):
                    _bad(e, "file_scheme argument")
                scheme = e.args[2].value
            m = e.keywords[0].value
            if isinstance(m, ast.Constant) and m.value is None:
                meta = "[]"                      # partition_meta = partition_meta or {}
            elif isinstance(m, ast.Name) and env.get(m.id) == "meta":
                meta = ident(m.id)
            else:
                _bad(e, "partition_meta argument")
            return "(path_to_cats_ %s %s (combine %s %s))" % ("true" if scheme == "hive" else "false", meta, a, b), "res cats"
        return Fn.call(self, e, env)

    def result(self, node, env):
        """return "scheme", X  -> (term of type res (scheme * cats))"""
        v = node.value
        if not (isinstance(v, ast.Tuple) and len(v.elts) == 2 and isinstance(v.elts[0], ast.Constant) and v.elts[0].value in SCHEMES):
            _bad(node, "return value of paths_to_cats")
        sch = SCHEMES[v.elts[0].value]
        t, ty = self.E(v.elts[1], env)
        if ty == "cats":
            return "Ok (%s, %s)" % (sch, t)
        if ty == "res cats":
            return "res_map (fun c => (%s, c)) %s" % (sch, t)
        _bad(node, "second component of type %s" % ty)

    def block(self, stmts, env, ret):
        if stmts and isinstance(stmts[0], ast.Return):
            return self.result(stmts[0], env)
        if stmts and isinstance(stmts[0], ast.Try):
            s = stmts[0]
            if len(s.body) == 1 and isinstance(s.body[0], ast.Return) and len(s.handlers) == 1 and not s.orelse and not s.finalbody \
                    and s.handlers[0].type is not None and ast.unparse(s.handlers[0].type) == "ValueError" \
                    and len(s.handlers[0].body) == 1 and isinstance(s.handlers[0].body[0], ast.Return):
                v = s.body[0].value
                if not (isinstance(v, ast.Tuple) and len(v.elts) == 2 and isinstance(v.elts[0], ast.Constant) and v.elts[0].value in SCHEMES):
                    _bad(s, "return value inside try")
                t, ty = self.E(v.elts[1], env)
                if ty != "res cats":
                    _bad(s, "try around a call that cannot raise in the model")
                # only ValueError is caught: every other exception propagates
                return "match %s with\n  | Ok c => Ok (%s, c)\n  | VErr =>\n  %s\n  | OErr => OErr\n  end" % (
                    t, SCHEMES[v.elts[0].value], self.result(s.handlers[0].body[0], env))
            _bad(s, "try statement of paths_to_cats")
        return Fn.block(self, stmts, env, ret)


def same_expr(node, text):
    """node is the expression `text` (compared as syntax trees: independent of how a Python version prints parentheses)"""
    return ast.dump(node) == ast.dump(ast.parse(text, mode="eval").body)


def target_names(t):
    return ",".join(n.id for n in ast.walk(t) if isinstance(n, ast.Name))


# ------------------------------------------------------------------------------------------------ util.val_from_meta
def translate_val_from_meta(fd, path_date_fmt_ok):
    """the dispatch of util.val_from_meta: which conversion for which pandas / numpy type, in which order, and what the
    `except ValueError` handler does.  The conversions themselves are parameters (numpy / pandas):
        np_scalar numpy_type x        np.dtype(numpy_type).type(x)
        py_timestamp_tz x             pd.Timestamp(x) put into the zone of the metadata
        py_to_datetime_fmt x          pd.to_datetime(x, format=PATH_DATE_FMT)"""
    stmts = [x for x in fd.body if not (isinstance(x, ast.Expr) and isinstance(x.value, ast.Constant))]
    if not (len(stmts) == 1 and isinstance(stmts[0], ast.Try) and len(stmts[0].handlers) == 1 and not stmts[0].orelse and not stmts[0].finalbody
            and stmts[0].handlers[0].type is not None and ast.unparse(stmts[0].handlers[0].type) == "ValueError"):
        _bad(fd, "val_from_meta is not one try / except ValueError")
    tr = stmts[0]

    def meta_field(e):
        """meta['pandas_type'] / meta['numpy_type'] -> Gallina name"""
        for k in ("pandas_type", "numpy_type"):
            if same_expr(e, "meta['%s']" % k):
                return k
        return None

    def cond(test, t_bound):
        if not (isinstance(test, ast.Compare) and len(test.ops) == 1 and isinstance(test.ops[0], ast.Eq)
                and isinstance(test.comparators[0], ast.Constant) and isinstance(test.comparators[0].value, str)):
            _bad(test, "condition of val_from_meta")
        c = str_const(test.comparators[0].value, test)
        k = meta_field(test.left)
        if k is not None:
            return "str_eqb %s %s" % (k, c)
        if t_bound and same_expr(test.left, "t"):      # t = np.dtype(meta['numpy_type']); t == "name": the dtype of that name
            return "str_eqb numpy_type %s" % c
        _bad(test, "condition of val_from_meta")

    branches, t_bound, final = [], False, None
    for x in tr.body:
        if final is not None:
            _bad(x, "statement after the final return of val_from_meta")
        if isinstance(x, ast.Assign) and same_expr(x.value, "np.dtype(meta['numpy_type'])") and target_names(x.targets[0]) == "t":
            t_bound = True
        elif isinstance(x, ast.If) and not x.orelse:
            c = cond(x.test, t_bound)
            body = [b for b in x.body]
            src = [ast.unparse(b) for b in body]
            if len(body) == 2 and same_expr(body[0].value, "(meta.get('metadata') or {}).get('labels')") and target_names(body[0].targets[0]) == "labels" \
                    and isinstance(body[1], ast.Return) and same_expr(body[1].value, "val_from_meta(x, labels) if labels else x"):
                br = "match labels with Some l => gen_val_from_meta x l | None => Ok (VStr x) end"
            elif len(body) == 3 and src[0] == "ts = pd.Timestamp(x)" and src[1] == "tz = (meta.get('metadata') or {}).get('timezone', 'UTC')" \
                    and src[2] == "return ts.tz_convert(tz) if ts.tzinfo is not None else ts.tz_localize(tz)":
                br = "py_timestamp_tz x"
            elif len(body) == 1 and isinstance(body[0], ast.Return) and isinstance(body[0].value, ast.Compare) and len(body[0].value.ops) == 1 \
                    and isinstance(body[0].value.ops[0], ast.In) and same_expr(body[0].value.left, "x") and isinstance(body[0].value.comparators[0], ast.List):
                texts = []
                for e in body[0].value.comparators[0].elts:
                    if not isinstance(e, ast.Constant) or not isinstance(e.value, (str, bool, int)):
                        _bad(e, "member of the bool literal list")
                    if isinstance(e.value, str):      # x is a text: True == 1 == "1" is false for a str
                        texts.append(str_const(e.value, e))
                br = "Ok (VBool (mem_str x gen_bool_true_texts))"      # the list itself is the unit `booltexts`
            else:
                _bad(x, "branch of val_from_meta")
            branches.append((c, br))
        elif isinstance(x, ast.Return) and t_bound and same_expr(x.value, "np.dtype(t).type(x)"):
            final = "np_scalar numpy_type x"
        else:
            _bad(x, "statement of val_from_meta")
    if final is None:
        _bad(fd, "val_from_meta does not end in np.dtype(t).type(x)")
    h = tr.handlers[0].body
    if not (len(h) == 1 and isinstance(h[0], ast.If) and len(h[0].body) == 1 and len(h[0].orelse) == 1 and isinstance(h[0].orelse[0], ast.Raise)
            and h[0].orelse[0].exc is None and isinstance(h[0].body[0], ast.Return)
            and same_expr(h[0].body[0].value, "pd.to_datetime(x, format=PATH_DATE_FMT)") and path_date_fmt_ok):
        _bad(tr.handlers[0], "handler of val_from_meta")
    hc = cond(h[0].test, False)
    chain = final
    for c, br in reversed(branches):
        chain = "if %s then %s\n      else %s" % (c, br, chain)
    return ("  (* util.val_from_meta, line %d: the dispatch; np_scalar / py_timestamp_tz / py_to_datetime_fmt are numpy's and pandas' conversions *)\n"
            "  Section GenMeta.\n"
            "  Variable np_scalar : str -> str -> res value.\n  Variable py_timestamp_tz : str -> res value.\n  Variable py_to_datetime_fmt : str -> res value.\n"
            "  Fixpoint gen_val_from_meta (x : str) (meta : pmeta) : res value :=\n"
            "    match meta with PMeta pandas_type numpy_type labels =>\n"
            "    py_except_ValueError\n      (%s)\n      (if %s then py_to_datetime_fmt x else VErr)\n    end.\n  End GenMeta.\n\n" % (fd.lineno, chain, hc))


# ------------------------------------------------------------------------------------------------ core.read_row_group
def translate_row_fill(fd):
    """the partition-column fill at the end of core.read_row_group: directory of the row group -> (key, val) of column `cat` ->
    the code cats[cat].index(val)"""
    loop = None
    for x in fd.body:
        if isinstance(x, ast.For) and same_expr(x.iter, "cats") and target_names(x.target) == "cat":
            loop = x
    if loop is None or loop.orelse:
        _bad(fd, "`for cat in cats:` not found in read_row_group")
    body = list(loop.body)
    if body and isinstance(body[0], ast.If) and same_expr(body[0].test, "cat not in assign") and len(body[0].body) == 1 \
            and isinstance(body[0].body[0], ast.Continue) and not body[0].orelse:
        body = body[1:]            # a partition column that was not asked for
    if len(body) != 4:
        _bad(loop, "body of the partition-column loop")
    sel, unp, conv, fill = body

    class FnRow(Fn):
        def E(self, e, env):
            if same_expr(e, "rg.columns[0].file_path"):
                return "file_path", "str"
            if isinstance(e, ast.Tuple) and len(e.elts) == 2:      # a pair is a sequence of two
                a, ta = self.E(e.elts[0], env)
                b, tb = self.E(e.elts[1], env)
                if ta != "str" or tb != "str":
                    _bad(e, "tuple of %s, %s" % (ta, tb))
                return "[%s; %s]" % (a, b), "list str"
            if isinstance(e, ast.BinOp) and isinstance(e.op, ast.Mod) and isinstance(e.left, ast.Constant) and e.left.value == "dir%i" \
                    and isinstance(e.right, ast.Name) and env.get(e.right.id) == "nat":
                return "(%s ++ show_nat %s)" % (str_const("dir", e), ident(e.right.id)), "str"
            return Fn.E(self, e, env)

        def call(self, e, env):
            if isinstance(e.func, ast.Name) and e.func.id == "enumerate" and len(e.args) == 1 and not e.keywords:
                a, ta = self.E(e.args[0], env)
                return "(py_enumerate %s)" % a, "list (nat * %s)" % elem_type(ta, e)
            return Fn.call(self, e, env)
    f = FnRow("read_row_group", {})
    if not (isinstance(sel, ast.If) and same_expr(sel.test, "scheme == 'hive'") and len(sel.body) == 1 and len(sel.orelse) == 1
            and all(isinstance(b, ast.Assign) and target_names(b.targets[0]) == "partitions" for b in (sel.body[0], sel.orelse[0]))):
        _bad(sel, "selection of the partitions by scheme")
    hv, th = f.E(sel.body[0].value, {})
    dr, td = f.E(sel.orelse[0].value, {})
    if th != "list (list str)" or td != "list (list str)":
        _bad(sel, "partitions of type %s / %s" % (th, td))
    # key, val = [p for p in partitions if p[0] == cat][0]
    if not (isinstance(unp, ast.Assign) and target_names(unp.targets[0]) == "key,val" and same_expr(unp.value, "[p for p in partitions if p[0] == cat][0]")):
        _bad(unp, "selection of the column's (key, val)")
    # if not all(isinstance(label, str) for label in cats[cat]): val = val_to_num(val, meta=partition_meta.get(key))
    if not (isinstance(conv, ast.If) and same_expr(conv.test, "not all(isinstance(label, str) for label in cats[cat])") and not conv.orelse
            and len(conv.body) == 1 and ast.unparse(conv.body[0]) == "val = val_to_num(val, meta=partition_meta.get(key))"):
        _bad(conv, "conversion of the directory value")
    if ast.unparse(fill) != "assign[cat][:] = cats[cat].index(val)":
        _bad(fill, "fill of the partition column")
    return ("  (* core.read_row_group, line %d: the partition columns of a row group.  labels = cats[cat]; veqb_ is Python's == under list.index;\n"
            "     val_to_num_ stands for util.val_to_num; None = an exception (IndexError, ValueError of the unpack / of list.index, conversion error) *)\n"
            "  Definition gen_row_partitions (hive : bool) (file_path : str) : list (list str) :=\n"
            "  if hive then %s\n  else %s.\n\n"
            "  Section GenRow.\n"
            "  Variable val_to_num_ : option kind -> str -> res value.\n  Variable veqb_ : value -> value -> bool.\n"
            "  Definition gen_row_value (hive : bool) (partition_meta : list (str * kind)) (cat : str) (labels : list value) (file_path : str) : option value :=\n"
            "  match filter (fun p => match p with p0 :: _ => str_eqb p0 cat | [] => false end) (gen_row_partitions hive file_path) with\n"
            "  | p :: _ => match pair_of p with\n"
            "              | Some (key, val) => if negb (forallb (is_vstr F T D) labels) then opt_of_res (val_to_num_ (alist_get key partition_meta) val)\n"
            "                                   else Some (VStr val)\n"
            "              | None => None\n              end\n"
            "  | [] => None\n  end.\n"
            "  (* assign[cat][:] = cats[cat].index(val): the code; the frame shows labels[code] *)\n"
            "  Definition gen_row_cell (hive : bool) (partition_meta : list (str * kind)) (file_path : str) (c : str * list value) : option (str * value) :=\n"
            "  match gen_row_value hive partition_meta (fst c) (snd c) file_path with\n"
            "  | Some v => match index_of veqb_ v (snd c) with\n"
            "              | Some i => option_map (pair (fst c)) (nth_error (snd c) i)\n              | None => None\n              end\n"
            "  | None => None\n  end.\n  End GenRow.\n\n" % (loop.lineno, hv, dr))


# ------------------------------------------------------------------------------------------------ api._path_to_cats
def translate_path_to_cats(fd):
    """-> Gallina text (inside Section GenValues) for api._path_to_cats"""
    stmts = [x for x in fd.body if not (isinstance(x, ast.Expr) and isinstance(x.value, ast.Constant))]
    src = [ast.unparse(x) for x in stmts]
    # ---- prologue: the containers and the metadata block used for levels known to be text
    want = {"partition_meta = partition_meta or {}": None, "cats = OrderedDict()": "cats", "raw = {}": "raw", "string_types = set()": "strings",
            "seen = set()": "seen", "meta = {'pandas_type': 'string', 'numpy_type': 'object'}": None, "s = ex_from_sep('/')": None}
    loop = ret = None
    for x, t in zip(stmts, src):
        if isinstance(x, ast.For):
            if loop is not None:
                _bad(x, "second loop in _path_to_cats")
            loop = x
        elif isinstance(x, ast.Return):
            ret = x
        elif t not in want:
            _bad(x, "statement of _path_to_cats outside the template")
    must = [k for k in want if k not in src and not k.startswith("s = ")]
    if must or loop is None or ret is None or stmts[-1] is not ret:
        raise Unsupported("_path_to_cats: missing %r / loop / final return" % (must,))
    if target_names(loop.target) != "path,path_parts" or not same_expr(loop.iter, "zip(paths, parts)") or loop.orelse:
        _bad(loop, "outer loop of _path_to_cats")
    # ---- outer body: hive hits / drill hits / inner loop
    hive_if = drill_if = inner = None
    for x in loop.body:
        if isinstance(x, ast.If) and ast.unparse(x.test) == "file_scheme == 'hive'" and not x.orelse:
            hive_if = x
        elif isinstance(x, ast.If) and ast.unparse(x.test) == "file_scheme == 'drill'" and not x.orelse:
            drill_if = x
        elif isinstance(x, ast.For) and target_names(x.target) == "key,val" and same_expr(x.iter, "hivehits") and not x.orelse:
            inner = x
        else:
            _bad(x, "statement in the outer loop of _path_to_cats")
    if hive_if is None or drill_if is None or inner is None or loop.body[-1] is not inner:
        raise Unsupported("_path_to_cats: hive branch / drill branch / inner loop not found")
    f = Fn("_path_to_cats", {})
    # hive: hivehits = [...]; if not hivehits: raise ValueError(...)
    hb = hive_if.body
    if not (len(hb) == 2 and isinstance(hb[0], ast.Assign) and ast.unparse(hb[0].targets[0]) == "hivehits" and isinstance(hb[1], ast.If)
            and ast.unparse(hb[1].test) == "not hivehits" and len(hb[1].body) == 1 and isinstance(hb[1].body[0], ast.Raise)
            and ast.unparse(hb[1].body[0].exc).startswith("ValueError(") and not hb[1].orelse):
        _bad(hive_if, "hive branch of _path_to_cats")
    hh, th = f.E(hb[0].value, {"path": "str"})
    if th != "list (list str)":
        _bad(hb[0], "hive hits of type %s" % th)
    # drill: hivehits = [(f"dir{i}", v) for i, v in enumerate(path_parts)]
    db = drill_if.body
    ok = len(db) == 1 and isinstance(db[0], ast.Assign) and ast.unparse(db[0].targets[0]) == "hivehits" and isinstance(db[0].value, ast.ListComp)
    if ok:
        lc = db[0].value
        g = lc.generators[0]
        ok = len(lc.generators) == 1 and not g.ifs and same_expr(g.iter, "enumerate(path_parts)") and target_names(g.target) == "i,v" \
            and isinstance(lc.elt, ast.Tuple) and len(lc.elt.elts) == 2 and ast.unparse(lc.elt.elts[1]) == "v" \
            and isinstance(lc.elt.elts[0], ast.JoinedStr) and len(lc.elt.elts[0].values) == 2 \
            and isinstance(lc.elt.elts[0].values[0], ast.Constant) and isinstance(lc.elt.elts[0].values[1], ast.FormattedValue) \
            and ast.unparse(lc.elt.elts[0].values[1].value) == "i" and lc.elt.elts[0].values[1].conversion == -1 \
            and lc.elt.elts[0].values[1].format_spec is None
    if not ok:
        _bad(drill_if, "drill branch of _path_to_cats")
    prefix = str_const(lc.elt.elts[0].values[0].value, lc)
    # ---- inner body by symbolic execution
    st = {"seen": "(st_seen F T D st)", "strings": "(st_strings F T D st)", "cats": "(st_cats F T D st)", "raw": "(st_raw F T D st)"}
    guard = None
    tp = None
    touched = False
    for x in inner.body:
        t = ast.unparse(x)
        if isinstance(x, ast.If) and t.startswith("if (key, val) in seen:") and len(x.body) == 1 and isinstance(x.body[0], ast.Continue) and not x.orelse:
            if touched:
                _bad(x, "the `seen` test after a container was changed")
            guard = "existsb (pair_eqb (key, val)) %s" % st["seen"]
        elif t == "seen.add((key, val))":
            st["seen"] = "((key, val) :: %s)" % st["seen"]
            touched = True
        elif isinstance(x, ast.Assign) and ast.unparse(x.targets[0]) == "tp":
            if t != "tp = val_to_num(val, meta if key in string_types else partition_meta.get(key))":
                _bad(x, "conversion of a directory value")
            tp = "val_to_num_ (if mem_str key %s then Some KStr else alist_get key partition_meta) val" % st["strings"]
        elif t == "if isinstance(tp, str):\n    string_types.add(key)":
            if tp is None:
                _bad(x, "tp used before it is bound")
            st["strings"] = "(if is_vstr F T D tp then key :: %s else %s)" % (st["strings"], st["strings"])
            touched = True
        elif t == "cats.setdefault(key, set()).add(tp)":
            if tp is None:
                _bad(x, "tp used before it is bound")
            st["cats"] = "(cats_add_ key tp %s)" % st["cats"]
            touched = True
        elif t == "raw.setdefault(key, set()).add(val)":
            st["raw"] = "(raw_add key val %s)" % st["raw"]
            touched = True
        else:
            _bad(x, "statement in the inner loop of _path_to_cats")
    if guard is None or tp is None or any(v.startswith("(st_") and v.endswith(" st)") and v.count("(") == 1 for k, v in st.items()):
        raise Unsupported("_path_to_cats: inner loop does not test `seen`, convert the value and update all four containers")
    # ---- return OrderedDict([(key, list(raw[key] if key in string_types else v)) for key, v in cats.items()])
    if not same_expr(ret.value, "OrderedDict([(key, list(raw[key] if key in string_types else v)) for key, v in cats.items()])"):
        _bad(ret, "return expression of _path_to_cats")
    return (
        "  (* api._path_to_cats, line %d.  val_to_num_ stands for util.val_to_num (kind of the metadata -> text -> res value), cats_add_ for\n"
        "     set.add under Python's == ; {'pandas_type': 'string', 'numpy_type': 'object'} is KStr *)\n"
        "  Definition gen_hive_hits (path : str) : option (list (list str)) :=\n"
        "  let hivehits := %s in\n  if negb (py_nonempty_list hivehits) then None else Some hivehits.\n\n"
        "  Definition gen_drill_hits (path_parts : list str) : list (str * str) :=\n"
        "  mapi_from (fun i v => (%s ++ show_nat i, v)) 0 path_parts.\n\n"
        "  Section GenCats.\n"
        "  Variable val_to_num_ : option kind -> str -> res value.\n"
        "  Variable cats_add_ : str -> value -> list (str * list value) -> list (str * list value).\n"
        "  Definition gen_add_hit (partition_meta : list (str * kind)) (st : res (pstate F T D)) (kv : str * str) : res (pstate F T D) :=\n"
        "  match st with\n  | VErr => VErr\n  | OErr => OErr\n  | Ok st =>\n  let '(key, val) := kv in\n"
        "  if %s then Ok st else\n  match %s with\n  | VErr => VErr\n  | OErr => OErr\n  | Ok tp =>\n"
        "  Ok (Build_pstate F T D\n        (* cats *) %s\n        (* raw *) %s\n        (* string_types *) %s\n        (* seen *) %s)\n  end\n  end.\n\n"
        "  Definition gen_final_cats (st : pstate F T D) : list (str * list value) :=\n"
        "  map (fun '(key, v) => (key, if mem_str key (st_strings F T D st) then map VStr (match alist_get key (st_raw F T D st) with Some l => l | None => [] end) else v))\n"
        "      (st_cats F T D st).\n\n"
        "  (* the loop skeleton (template): for every (path, parts): the hits of the scheme (no hive hit, or a hit that does not unpack into\n"
        "     (key, val): ValueError), then the inner loop over the hits *)\n"
        "  Definition gen_path_hits (hive : bool) (pp : str * list str) : res (list (str * str)) :=\n"
        "  if hive then match gen_hive_hits (fst pp) with\n"
        "               | Some hits => res_of_opt (all_some (map pair_of hits))\n               | None => VErr end\n"
        "  else Ok (gen_drill_hits (snd pp)).\n"
        "  Definition gen_path_to_cats (hive : bool) (partition_meta : list (str * kind)) (pps : list (str * list str))\n"
        "    : res (list (str * list value)) :=\n"
        "  res_map gen_final_cats\n"
        "    (fold_left (fun st pp => match st with\n"
        "                             | Ok _ => match gen_path_hits hive pp with\n"
        "                                       | Ok hits => fold_left (gen_add_hit partition_meta) hits st\n"
        "                                       | VErr => VErr\n                                       | OErr => OErr\n                                       end\n"
        "                             | e => e\n                             end) pps (Ok (st0 F T D))).\n"
        "  End GenCats.\n" % (fd.lineno, hh, prefix, guard, tp, st["cats"], st["raw"], st["strings"], st["seen"]))


def find_def(tree, name):
    for n in tree.body:
        if isinstance(n, ast.FunctionDef) and n.name == name:
            return n
    raise Unsupported("function %s not found at module level" % name)


def params(fd, want):
    got = [a.arg for a in fd.args.args]
    if got != want or fd.args.vararg or fd.args.kwarg or fd.args.kwonlyargs:
        raise Unsupported("%s: parameters %r, expected %r" % (fd.name, got, want))


HEADER = """(* GENERATED by translators/paths2coq.py from fastparquet/util.py and fastparquet/writer.py - do not edit.
   Theorems over this text: coq/genproofs/GenPathsProofs.v (re-proved on every run of the C08 / C14 checks). *)
From Coq Require Import NArith ZArith Bool Ascii String Arith List.
From Pq Require Import Base.Bytes Impl.Partition Impl.Paths Impl.PyPaths.
Import ListNotations.
Local Open Scope nat_scope.
Local Open Scope bool_scope.

"""


def translate_units(util_src, writer_src, api_src=None, core_src=None):
    """-> (Gallina text of Gen/GenPaths.v, [units translated], {unit that failed closed: reason}).
    Every function is its own unit: a construct outside the fragment switches off that unit (and the units that call it) only."""
    import os
    ut = ast.parse(open(util_src).read())
    wt = ast.parse(open(writer_src).read())
    at = ast.parse(open(api_src or os.path.join(os.path.dirname(util_src), "api.py")).read())
    ct = ast.parse(open(core_src or os.path.join(os.path.dirname(util_src), "core.py")).read())
    def u_analyse():
        out = []
        # ---- util.analyse_paths(file_list, root=False)
        fd = find_def(ut, "analyse_paths")
        params(fd, ["file_list", "root"])
        if not (len(fd.args.defaults) == 1 and isinstance(fd.args.defaults[0], ast.Constant) and fd.args.defaults[0].value is False):
            raise Unsupported("analyse_paths: default of root is not False")

        def ret_ap(vals, node):
            if vals == "IndexError":
                return "AIndexError"
            if vals == "AssertionError":
                return "AAssertion"
            if len(vals) == 2 and vals[0][1] == "str" and vals[1][1] == "list str":
                return "AOk %s %s" % (vals[0][0], vals[1][0])
            _bad(node, "analyse_paths returns %r" % ([v[1] for v in vals],))
        body = Fn("analyse_paths", {}).block(fd.body, {"file_list": "list str", "root": "option str"}, ret_ap)
        out.append("(* util.analyse_paths, line %d; root : None stands for `root is False` *)\n"
                   "Definition gen_analyse_paths (file_list : list str) (root : option str) : ares :=\n  %s.\n\n" % (fd.lineno, body))

        return "".join(out)
    def u_strip():
        out = []
        # ---- util._strip_path_tail(paths): {f(path) for path in paths}
        fd = find_def(ut, "_strip_path_tail")
        params(fd, ["paths"])
        stmts = [s for s in fd.body if not (isinstance(s, ast.Expr) and isinstance(s.value, ast.Constant))]
        if not (len(stmts) == 1 and isinstance(stmts[0], ast.Return) and isinstance(stmts[0].value, ast.SetComp)
                and len(stmts[0].value.generators) == 1 and not stmts[0].value.generators[0].ifs
                and isinstance(stmts[0].value.generators[0].target, ast.Name)
                and isinstance(stmts[0].value.generators[0].iter, ast.Name) and stmts[0].value.generators[0].iter.id == "paths"):
            raise Unsupported("_strip_path_tail is not a set comprehension over paths")
        var = stmts[0].value.generators[0].target.id
        elt = stmts[0].value.elt

        class FnStrip(Fn):
            def subscript(self, e, env):       # path.rsplit("/", 1)[0]
                v = e.value
                if isinstance(e.slice, ast.Constant) and e.slice.value == 0 and isinstance(v, ast.Call) and isinstance(v.func, ast.Attribute) \
                        and v.func.attr == "rsplit" and len(v.args) == 2 and isinstance(v.args[0], ast.Constant) \
                        and isinstance(v.args[1], ast.Constant) and v.args[1].value == 1:
                    a, ta = self.E(v.func.value, env)
                    if ta != "str":
                        _bad(e, "rsplit of %s" % ta)
                    return "(py_rsplit1_head %s %s)" % (chr_const(v.args[0].value, e), a), "str"
                return Fn.subscript(self, e, env)
        t, ty = FnStrip("_strip_path_tail", {}).E(elt, {var: "str"})
        if ty != "str":
            raise Unsupported("_strip_path_tail element of type %s" % ty)
        out.append("(* util._strip_path_tail, line %d: the element of the set comprehension *)\n"
                   "Definition gen_strip_tail (%s : str) : str :=\n  %s.\n\n" % (fd.lineno, ident(var), t))

        return "".join(out)
    def u_booltexts():
        out = []
        # ---- util.val_from_meta: inventories (the dispatch itself is numpy's: hand model + correspondence)
        fd = find_def(ut, "val_from_meta")
        params(fd, ["x", "meta"])
        lit = None
        for n in ast.walk(fd):
            if isinstance(n, ast.If) and same_expr(n.test, "t == 'bool'") and len(n.body) == 1 and isinstance(n.body[0], ast.Return) \
                    and isinstance(n.body[0].value, ast.Compare) and len(n.body[0].value.ops) == 1 and isinstance(n.body[0].value.ops[0], ast.In) \
                    and same_expr(n.body[0].value.left, "x") and isinstance(n.body[0].value.comparators[0], ast.List):
                lit = n.body[0].value.comparators[0]
        if lit is None:
            raise Unsupported("val_from_meta: `if t == 'bool': return x in [...]` not found")
        texts = []
        for e in lit.elts:       # x is a text: only the text members can be equal to it (True == 1 == "1" is false for a str)
            if not isinstance(e, ast.Constant) or not isinstance(e.value, (str, bool, int)):
                _bad(e, "member of the bool literal list")
            if isinstance(e.value, str):
                texts.append(str_const(e.value, e))
        out.append("(* util.val_from_meta, line %d: the texts the bool branch reads as True *)\n"
                   "Definition gen_bool_true_texts : list str := [%s].\n\n" % (lit.lineno, "; ".join(texts)))

        return "".join(out)
    def u_fastrel():
        out = []
        # ---- util.metadata_from_many, fast path: rg.columns[0].file_path = <f>[len(basepath):].lstrip("/")
        fd = find_def(ut, "metadata_from_many")
        rels = []
        for n in ast.walk(fd):
            # the fast path writes `<chunk>.file_path = <f>[len(basepath):].lstrip("/")` (on every chunk since fix 04ef417, on
            # rg.columns[0] before); the legacy path's assignments do not slice by len(basepath)
            if isinstance(n, ast.Assign) and len(n.targets) == 1 and isinstance(n.targets[0], ast.Attribute) and n.targets[0].attr == "file_path" \
                    and "len(basepath)" in ast.unparse(n.value):
                if not (isinstance(n.value, ast.Call) and isinstance(n.value.func, ast.Attribute) and n.value.func.attr == "lstrip"):
                    _bad(n, "first-chunk path of the fast path that is not of the form f[len(basepath):].lstrip('/')")
                names = sorted({x.id for x in ast.walk(n.value) if isinstance(x, ast.Name)} - {"len", "basepath"})
                if len(names) != 1:
                    _bad(n, "relative path of the fast path")
                class Ren(ast.NodeTransformer):
                    def visit_Name(self, node, old=names[0]):
                        return ast.copy_location(ast.Name(id="f", ctx=node.ctx), node) if node.id == old else node
                import copy
                t, ty = Fn("metadata_from_many", {}).E(Ren().visit(copy.deepcopy(n.value)), {"basepath": "str", "f": "str"})
                rels.append((t, ty, n.lineno))
        if not rels or any(r[1] != "str" for r in rels) or len({r[0] for r in rels}) != 1:
            raise Unsupported("metadata_from_many: the fast path's relative-path expressions not found or not all alike: %r" % (rels,))
        out.append("(* util.metadata_from_many, lines %s: first-chunk path of a row group of file f on the footer fast path *)\n"
                   "Definition gen_fast_rel (basepath f : str) : str :=\n  %s.\n\n" % (", ".join(str(r[2]) for r in rels), rels[0][0]))

        return "".join(out)
    def u_SECTION():
        out = []
        # ---- the functions over partition values live in a section over the external conversions
        out.append("Section GenValues.\n  Variables F T D : Type.\n  Variable show_float : F -> str.\n  Variable show_time_iso : T -> str.\n"
                   "  Variable show_time_str : T -> str.\n  Variable parse_float : bool -> str -> option F.\n"
                   "  Variable parse_time_pd : str -> option T.\n  Variable parse_delta : str -> option D.\n"
                   "  Notation value := (Partition.value F T D).\n"
                   "  Notation py_str := (PyPaths.py_str F T D show_float show_time_iso show_time_str).\n"
                   "  Notation py_isoformat := (PyPaths.py_isoformat F T D show_time_iso).\n"
                   "  Notation py_is_timestamp := (PyPaths.py_is_timestamp F T D).\n\n")

        return "".join(out)
    def u_pathstring():
        out = []
        # ---- util.path_string(o)
        fd = find_def(ut, "path_string")
        params(fd, ["o"])

        def ret_str(vals, node):
            if isinstance(vals, list) and len(vals) == 1 and vals[0][1] == "str":
                return vals[0][0]
            _bad(node, "path_string returns %r" % (vals,))
        body = Fn("path_string", {}).block(fd.body, {"o": "value"}, ret_str)
        out.append("  (* util.path_string, line %d *)\n  Definition gen_path_string (o : value) : str :=\n  %s.\n\n" % (fd.lineno, body))

        return "".join(out)
    def u_valtonum():
        out = []
        # ---- util._val_to_num(x): x is a text (the `isinstance(x, numbers.Real)` exit concerns non-texts and is skipped)
        fd = find_def(ut, "_val_to_num")
        params(fd, ["x"])
        stmts = list(fd.body)
        if stmts and isinstance(stmts[0], ast.If) and ast.unparse(stmts[0].test) == "isinstance(x, numbers.Real)" \
                and len(stmts[0].body) == 1 and isinstance(stmts[0].body[0], ast.Return) and ast.unparse(stmts[0].body[0].value) == "x" \
                and not stmts[0].orelse:
            stmts = stmts[1:]

        def ret_val(vals, node):
            if isinstance(vals, list) and len(vals) == 1:
                t, ty = vals[0]
                if ty == "value":
                    return t
                if ty == "str":
                    return "VStr %s" % t
                if ty == "bool":
                    return "VBool %s" % t
            _bad(node, "_val_to_num returns %r" % (vals,))
        body = Fn("_val_to_num", {}).block(stmts, {"x": "str"}, ret_val)
        out.append("  (* util._val_to_num, line %d *)\n  Definition gen_val_to_num (x : str) : value :=\n  %s.\n\n" % (fd.lineno, body))

        return "".join(out)
    def u_naming():
        out = []
        # ---- writer.partition_on_columns: the naming statements
        fd = find_def(wt, "partition_on_columns")
        path_if, relname = None, None
        for n in ast.walk(fd):
            if isinstance(n, ast.If) and isinstance(n.test, ast.Name) and n.test.id == "with_field" and len(n.body) == 1 and len(n.orelse) == 1 \
                    and all(isinstance(b, ast.Assign) and len(b.targets) == 1 and isinstance(b.targets[0], ast.Name) and b.targets[0].id == "path"
                            for b in (n.body[0], n.orelse[0])):
                path_if = n
            if isinstance(n, ast.Assign) and len(n.targets) == 1 and isinstance(n.targets[0], ast.Name) and n.targets[0].id == "relname":
                relname = n
        if path_if is None or relname is None:
            raise Unsupported("partition_on_columns: `if with_field: path = ... else: path = ...` / `relname = ...` not found")
        funcs = {"path_string": ("gen_path_string", ["value"], "str")}
        env = {"with_field": "bool", "columns": "list str", "key": "list value"}
        a, ta = Fn("partition_on_columns", funcs).E(path_if.body[0].value, env)
        b, tb = Fn("partition_on_columns", funcs).E(path_if.orelse[0].value, env)
        if ta != "str" or tb != "str":
            raise Unsupported("partition_on_columns: path of type %s / %s" % (ta, tb))
        out.append("  (* writer.partition_on_columns, line %d: directory of a key *)\n"
                   "  Definition gen_dir_path (with_field : bool) (columns : list str) (key : list value) : str :=\n"
                   "  if with_field then %s\n  else %s.\n\n" % (path_if.lineno, a, b))
        r, tr_ = Fn("partition_on_columns", funcs).E(relname.value, {"path": "str", "partname": "str"})
        if tr_ != "str":
            raise Unsupported("partition_on_columns: relname of type %s" % tr_)
        out.append("  (* writer.partition_on_columns, line %d *)\n  Definition gen_relname (path partname : str) : str :=\n  %s.\n"
                   % (relname.lineno, r))
        return "".join(out)
    def u_cats():
        out = []
        # ---- api.paths_to_cats(paths, partition_meta=None)
        fd = find_def(at, "paths_to_cats")
        params(fd, ["paths", "partition_meta"])
        pd_ = find_def(at, "_path_to_cats")
        params(pd_, ["paths", "parts", "file_scheme", "partition_meta"])
        dfl = pd_.args.defaults
        if not (len(dfl) == 2 and isinstance(dfl[0], ast.Constant) and dfl[0].value in ("hive", "drill") and isinstance(dfl[1], ast.Constant) and dfl[1].value is None):
            raise Unsupported("_path_to_cats: defaults of file_scheme / partition_meta")
        first = [x for x in pd_.body if not (isinstance(x, ast.Expr) and isinstance(x.value, ast.Constant))][0]
        if ast.unparse(first) != "partition_meta = partition_meta or {}":
            raise Unsupported("_path_to_cats does not start with `partition_meta = partition_meta or {}`")
        out.append("\n" + translate_path_to_cats(pd_))
        body = FnCats("paths_to_cats", dfl[0].value).block(fd.body, {"paths": "list str", "partition_meta": "meta"}, None)
        out.append("\n  (* api.paths_to_cats, line %d.  path_to_cats_ hive? metadata zip(paths, parts) stands for api._path_to_cats; dirs for the elements of\n"
                   "     the set _strip_path_tail(paths) in iteration order; a missing file_path (None) is the empty text *)\n"
                   "  Notation cats := (list (str * list value)).\n  Notation meta := (list (str * kind)).\n"
                   "  Definition gen_paths_to_cats (path_to_cats_ : bool -> meta -> list (str * list str) -> res cats)\n"
                   "      (partition_meta : meta) (paths : list str) (dirs : list str) : res (scheme * cats) :=\n  %s.\n" % (fd.lineno, body))



        return "".join(out)

    def u_valfrommeta():
        fmt = any(isinstance(n, ast.Assign) and len(n.targets) == 1 and isinstance(n.targets[0], ast.Name) and n.targets[0].id == "PATH_DATE_FMT"
                  and isinstance(n.value, ast.Constant) and isinstance(n.value.value, str) for n in ut.body)
        fd = find_def(ut, "val_from_meta")
        params(fd, ["x", "meta"])
        return translate_val_from_meta(fd, fmt)

    def u_rowfill():
        return translate_row_fill(find_def(ct, "read_row_group"))

    def u_verify():
        """util.metadata_from_many: `if verify_schema: for pf in pfs[A:]: if pf._schema != pfs[B]._schema: raise ValueError(...)`"""
        fd = find_def(ut, "metadata_from_many")
        hit = None
        for n in ast.walk(fd):
            if isinstance(n, ast.If) and same_expr(n.test, "verify_schema") and not n.orelse:
                hit = n
        if hit is None or len(hit.body) != 1 or not isinstance(hit.body[0], ast.For) or hit.body[0].orelse:
            raise Unsupported("metadata_from_many: `if verify_schema: for pf in pfs[..]:` not found")
        # verification happens on the legacy path ONLY: requesting it must select that path, and nothing else may look at the flag
        uses = [n for n in ast.walk(fd) if isinstance(n, ast.Name) and n.id == "verify_schema" and isinstance(n.ctx, ast.Load)]
        dispatch = [n for n in ast.walk(fd) if isinstance(n, ast.If) and same_expr(n.test, "verify_schema or fs is None or len(file_list) < 3")]
        if len(dispatch) != 1 or len(uses) != 2:
            raise Unsupported("metadata_from_many: verify_schema is expected exactly in the path selection `verify_schema or fs is None or "
                              "len(file_list) < 3` and in the legacy loop (found %d uses, %d such selections)" % (len(uses), len(dispatch)))
        loop = hit.body[0]
        it = loop.iter
        if not (target_names(loop.target) == "pf" and isinstance(it, ast.Subscript) and same_expr(it.value, "pfs") and isinstance(it.slice, ast.Slice)
                and it.slice.upper is None and it.slice.step is None and isinstance(it.slice.lower, ast.Constant) and isinstance(it.slice.lower.value, int)
                and it.slice.lower.value >= 0):
            _bad(loop, "files compared by the verification")
        start = it.slice.lower.value
        if not (len(loop.body) == 1 and isinstance(loop.body[0], ast.If) and not loop.body[0].orelse and len(loop.body[0].body) == 1
                and isinstance(loop.body[0].body[0], ast.Raise) and ast.unparse(loop.body[0].body[0].exc).startswith("ValueError(")):
            _bad(loop, "body of the verification loop")
        t = loop.body[0].test
        if not (isinstance(t, ast.Compare) and len(t.ops) == 1 and isinstance(t.ops[0], ast.NotEq) and same_expr(t.left, "pf._schema")
                and isinstance(t.comparators[0], ast.Attribute) and t.comparators[0].attr == "_schema"
                and isinstance(t.comparators[0].value, ast.Subscript) and same_expr(t.comparators[0].value.value, "pfs")
                and isinstance(t.comparators[0].value.slice, ast.Constant) and isinstance(t.comparators[0].value.slice.value, int)
                and t.comparators[0].value.slice.value >= 0):
            _bad(t, "comparison of the verification (expected pf._schema != pfs[<n>]._schema: list inequality of the SchemaElement objects)")
        ref = t.comparators[0].value.slice.value
        return ("(* util.metadata_from_many, line %d: does verify_schema raise?  schemas = [pf._schema for pf in pfs]; schema_ne a b stands for a != b *)\n"
                "Definition gen_verify_raises {S : Type} (schema_ne : S -> S -> bool) (schemas : list S) : bool :=\n"
                "  match skipn %d schemas with\n  | [] => false\n  | later => match nth_error schemas %d with\n"
                "              | Some s0 => existsb (fun s => schema_ne s s0) later\n              | None => false\n              end\n  end.\n\n"
                % (loop.lineno, start, ref))

    top = [("analyse", u_analyse, []), ("strip", u_strip, []), ("booltexts", u_booltexts, []), ("fastrel", u_fastrel, []), ("verify", u_verify, [])]
    sec = [("pathstring", u_pathstring, []), ("valtonum", u_valtonum, []), ("naming", u_naming, ["pathstring"]), ("cats", u_cats, []),
           ("valfrommeta", u_valfrommeta, ["booltexts"]), ("rowfill", u_rowfill, [])]
    text, ok, failed = [HEADER], [], {}

    def run(units):
        for name, fn, deps in units:
            missing = [d for d in deps if d not in ok]
            if missing:
                failed[name] = "needs %s, which failed closed" % ", ".join(missing)
                continue
            try:
                t = fn()
            except Unsupported as e:
                failed[name] = str(e)
                continue
            text.append(t)
            ok.append(name)
    run(top)
    text.append(u_SECTION())
    run(sec)
    text.append("End GenValues.\n")
    return "".join(text), ok, failed


def translate(util_src, writer_src, api_src=None):
    """-> Gallina text of Gen/GenPaths.v; raises Unsupported when ANY unit fails (use translate_units for per-function results)"""
    text, ok, failed = translate_units(util_src, writer_src, api_src)
    if failed:
        raise Unsupported("; ".join("%s: %s" % kv for kv in failed.items()))
    return text


if __name__ == "__main__":
    import sys
    print(translate(sys.argv[1], sys.argv[2], sys.argv[3] if len(sys.argv) > 3 else None))
