"""specs2coq: the `cdef dict specs = {...}` and `cdef dict children = {...}` literals of cencoding.pyx ->
Gallina tables (Pq.Thrift.Tables.specs_t / children_t).  Fails closed: the text between the opening
brace and its matching closing brace must be a Python literal (ast.literal_eval) of the expected shape."""
import ast


class SpecsError(Exception):
    pass


def _literal_after(txt, marker):
    i = txt.find(marker)
    if i < 0:
        raise SpecsError("marker %r not found" % marker)
    if txt.find(marker, i + 1) >= 0:
        raise SpecsError("marker %r occurs twice" % marker)
    j = txt.index("{", i)
    depth, k = 0, j
    while k < len(txt):
        c = txt[k]
        if c == "{":
            depth += 1
        elif c == "}":
            depth -= 1
            if depth == 0:
                break
        elif c in "\"'":
            q = c
            k += 1
            while txt[k] != q:
                if txt[k] == "\\":
                    raise SpecsError("escape in string literal")
                k += 1
        elif c == "#":
            raise SpecsError("comment inside the literal")
        k += 1
    if depth != 0:
        raise SpecsError("unbalanced braces after %r" % marker)
    try:
        return ast.literal_eval(txt[j:k + 1])
    except Exception as e:   # noqa
        raise SpecsError("not a literal after %r: %s" % (marker, e))


def parse(path):
    txt = open(path, encoding="utf-8").read()
    specs = _literal_after(txt, "cdef dict specs = ")
    children = _literal_after(txt, "cdef dict children = ")
    if not isinstance(specs, dict) or not all(isinstance(k, str) and isinstance(v, dict) and
                                              all(isinstance(a, str) and isinstance(b, int) and not isinstance(b, bool) and b >= 0
                                                  for a, b in v.items()) for k, v in specs.items()):
        raise SpecsError("specs: expected {str: {str: int}}")
    if not isinstance(children, dict) or not all(isinstance(k, str) and isinstance(v, dict) and
                                                 all(isinstance(a, str) and isinstance(b, str) for a, b in v.items())
                                                 for k, v in children.items()):
        raise SpecsError("children: expected {str: {str: str}}")
    return specs, children


def _s(x):
    if '"' in x:
        raise SpecsError("quote in name")
    return '"%s"' % x


def translate(path):
    specs, children = parse(path)
    o = ["From Coq Require Import NArith List String.", "From Pq Require Import Thrift.Tables.", "Import ListNotations.",
         "Open Scope string_scope.", "Open Scope N_scope.", "",
         "Definition specs : specs_t :=", " ["]
    o.append(";\n".join("  (%s, [%s])" % (_s(n), "; ".join("(%s, %d)" % (_s(f), i) for f, i in fl.items())) for n, fl in specs.items()))
    o += [" ].", "", "Definition children : children_t :=", " ["]
    o.append(";\n".join("  (%s, [%s])" % (_s(n), "; ".join("(%s, %s)" % (_s(f), _s(c)) for f, c in fl.items())) for n, fl in children.items()))
    o += [" ]."]
    return "\n".join(o) + "\n"


if __name__ == "__main__":
    import sys
    print(translate(sys.argv[1]))
