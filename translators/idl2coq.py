"""idl2coq: fastparquet/parquet.thrift -> Gallina table (Pq.Thrift.Idl.idl).  Fails closed:
any construct outside the subset the Parquet IDL uses (namespace, enum, struct, union with scalar /
list<...> / named types, optional default values) raises IdlError with the line number."""
import re


class IdlError(Exception):
    pass


SCALARS = {"bool": "FBool", "i8": "FI8", "byte": "FI8", "i16": "FI16", "i32": "FI32", "i64": "FI64",
           "double": "FDouble", "binary": "FBinary", "string": "FString"}


def strip_comments(txt):
    out = []
    i, n = 0, len(txt)
    while i < n:
        if txt.startswith("/*", i):
            j = txt.find("*/", i + 2)
            if j < 0:
                raise IdlError("unterminated comment")
            out.append("".join(c if c == "\n" else " " for c in txt[i:j + 2]))
            i = j + 2
        elif txt.startswith("//", i) or txt[i] == "#":
            j = txt.find("\n", i)
            j = n if j < 0 else j
            i = j
        elif txt[i] in "\"'":
            raise IdlError("string literal in IDL not supported")
        else:
            out.append(txt[i])
            i += 1
    return "".join(out)


TOK = re.compile(r"\s*(?:([A-Za-z_][A-Za-z0-9_.]*)|(-?\d+)|([{}<>:;,=()]))")


def tokens(txt):
    pos, line = 0, 1
    out = []
    while True:
        m = re.compile(r"\s*").match(txt, pos)
        line += txt[pos:m.end()].count("\n")
        pos = m.end()
        if pos >= len(txt):
            return out
        m = TOK.match(txt, pos)
        if not m:
            raise IdlError("line %d: unexpected character %r" % (line, txt[pos]))
        kind = "id" if m.group(1) else ("num" if m.group(2) else "p")
        out.append((kind, m.group(1) or m.group(2) or m.group(3), line))
        pos = m.end()


def parse(txt):
    """-> (enums, structs): enums = [(name, [(vname, value)])], structs = [(name, is_union, [(id, req, fname, type)])],
    type = scalar constructor name | ('enum'|'struct'|'named', name) | ('list', type)"""
    toks = tokens(strip_comments(txt))
    i = 0
    enums, structs = [], []

    def peek():
        return toks[i] if i < len(toks) else ("eof", "", -1)

    def eat(kind=None, val=None):
        nonlocal i
        k, v, ln = peek()
        if (kind and k != kind) or (val is not None and v != val):
            raise IdlError("line %d: expected %s %s, found %r" % (ln, kind or "", val or "", v))
        i += 1
        return v

    def ftype():
        k, v, ln = peek()
        if k != "id":
            raise IdlError("line %d: type expected, found %r" % (ln, v))
        eat()
        if v == "list":
            eat("p", "<")
            t = ftype()
            eat("p", ">")
            return ("list", t)
        if v in ("map", "set"):
            raise IdlError("line %d: %s<> not supported" % (ln, v))
        if v in SCALARS:
            return SCALARS[v]
        return ("named", v)

    while i < len(toks):
        k, v, ln = peek()
        if k != "id":
            raise IdlError("line %d: declaration expected, found %r" % (ln, v))
        if v == "namespace":
            eat(); eat("id"); eat("id")
        elif v == "enum":
            eat()
            name = eat("id")
            eat("p", "{")
            vals = []
            while peek()[1] != "}":
                vn = eat("id")
                eat("p", "=")
                vv = int(eat("num"))
                if peek()[1] in (";", ","):
                    eat()
                vals.append((vn, vv))
            eat("p", "}")
            enums.append((name, vals))
        elif v in ("struct", "union"):
            eat()
            name = eat("id")
            eat("p", "{")
            fields = []
            while peek()[1] != "}":
                fid = int(eat("num"))
                eat("p", ":")
                req = 0
                if peek()[1] in ("required", "optional"):
                    req = 1 if eat() == "required" else 2
                t = ftype()
                fname = eat("id")
                if peek()[1] == "=":
                    eat()
                    if peek()[0] not in ("num", "id"):
                        raise IdlError("line %d: unsupported default value" % peek()[2])
                    eat()
                if peek()[1] in (";", ","):
                    eat()
                fields.append((fid, req, fname, t))
            eat("p", "}")
            structs.append((name, v == "union", fields))
        else:
            raise IdlError("line %d: unsupported declaration %r" % (ln, v))
    en = {e[0] for e in enums}
    sn = {s[0] for s in structs}

    def resolve(t, where):
        if isinstance(t, tuple) and t[0] == "list":
            return ("list", resolve(t[1], where))
        if isinstance(t, tuple) and t[0] == "named":
            if t[1] in en:
                return ("enum", t[1])
            if t[1] in sn:
                return ("struct", t[1])
            raise IdlError("%s: unknown type %s" % (where, t[1]))
        return t
    structs = [(n, u, [(fid, req, fn, resolve(t, n + "." + fn)) for fid, req, fn, t in fl]) for n, u, fl in structs]
    return enums, structs


def coq_fty(t):
    if isinstance(t, tuple):
        if t[0] == "list":
            return "(FList %s)" % coq_fty(t[1])
        if t[0] == "enum":
            return '(FEnum "%s")' % t[1]
        if t[0] == "struct":
            return '(FStruct "%s")' % t[1]
        raise IdlError("unresolved type %r" % (t,))
    return t


def to_coq(enums, structs, name="table"):
    o = ["From Coq Require Import NArith ZArith List String.", "From Pq Require Import Thrift.Idl.",
         "Import ListNotations.", "Open Scope string_scope.", "Open Scope N_scope.", "",
         "Definition %s : idl := mkIdl" % name, " ["]
    o.append(";\n".join('  mkE "%s" [%s]' % (n, "; ".join('("%s", %d%%Z)' % (vn, vv) for vn, vv in vals)) for n, vals in enums))
    o.append(" ]")
    o.append(" [")
    o.append(";\n".join('  mkS "%s" %s [%s]' % (n, "true" if u else "false",
                                               ";\n      ".join('mkF %d %d "%s" %s' % (fid, req, fn, coq_fty(t)) for fid, req, fn, t in fl))
                        for n, u, fl in structs))
    o.append(" ].")
    return "\n".join(o) + "\n"


def translate(path, name="table"):
    return to_coq(*parse(open(path, encoding="utf-8").read()), name=name)


if __name__ == "__main__":
    import sys
    print(translate(sys.argv[1]))
