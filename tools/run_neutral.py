#!/usr/bin/env python3
"""tools/run_neutral.py [-j N] <dir-with-<k>/patch.diff> [ids...]: run every quick check against behaviour-preserving patches.
Jobs = (patch, property); each slot = private copy of /verif + scratch worktree of /repo (as run_seeded_par).
A neutral patch must leave every check silent; prints every alarm with the first lines of its replay."""
import glob, json, os, sys, threading, queue, time
sys.path.insert(0, os.path.dirname(os.path.abspath(__file__)))
import run_seeded_par as R

def main():
    args = sys.argv[1:]; j = 4
    if "-j" in args:
        i = args.index("-j"); j = int(args[i + 1]); del args[i:i + 2]
    root = os.path.abspath(args[0]); ids = args[1:] or ["C%02d" % i for i in range(1, 21)]
    patches = sorted(d for d in glob.glob(root + "/*/") if os.path.exists(d + "patch.diff"))
    q = queue.Queue()
    for d in patches:
        for pid in ids:
            q.put((d, pid))
    results = {}; lock = threading.Lock()
    def worker(k):
        slot = R.make_slot(k)
        try:
            while True:
                try: d, pid = q.get_nowait()
                except queue.Empty: return
                repo = slot + "/repo"
                rc, out = R.sh("git apply %spatch.diff" % d, cwd=repo)
                if rc != 0:
                    with lock: results[(d, pid)] = {"error": out[-300:]}; print(d, pid, "PATCH DOES NOT APPLY", flush=True)
                    continue
                try:
                    t = time.time()
                    rc, out = R.sh("./check %s --tier quick" % pid, cwd=slot + "/verif", env=dict(os.environ, VERIF_REPO=repo), timeout=2400)
                    vio = [l for l in out.splitlines() if l.startswith("VIOLATION")]
                    head = None
                    if vio:
                        try: head = open(vio[0].split("replay=")[1].split()[0]).read()[:1200]
                        except Exception: pass
                    fb = [l for l in out.splitlines() if "translator_fallback" in l][:3]
                    with lock:
                        results[(d, pid)] = {"exit": rc, "violations": vio[:3], "replay_head": head, "wall": round(time.time() - t, 1)}
                        print(os.path.basename(d.rstrip("/")), pid, "silent" if rc == 0 and not vio else "ALARM exit=%d %s" % (rc, vio[:1]), round(time.time() - t), "s", flush=True)
                        if head: print("    ", head.replace("\n", " ")[:600], flush=True)
                finally:
                    R.sh("git apply -R %spatch.diff" % d, cwd=repo); R.sh("git checkout -- .", cwd=repo)
        finally:
            R.drop_slot(slot)
    ts = [threading.Thread(target=worker, args=(k,)) for k in range(j)]
    [t.start() for t in ts]; [t.join() for t in ts]
    json.dump({"%s|%s" % k: v for k, v in results.items()}, open(root + "/RESULTS.json", "w"), indent=1)
    bad = [k for k, v in results.items() if v.get("violations") or v.get("exit") not in (0, None) or "error" in v]
    print("alarms:", len(bad), "of", len(results))
main()
