CHECKS = {
 "C16": {
  "text": "Coq theorems over the impl model of the key merge (update_kv: lookup semantics for every old list/update dict, untouched entries keep order) and of the in-place footer rewrite (for ANY sequence of footers of ANY sizes the file is data ++ footer ++ le32 len ++ PAR1 with the data prefix byte-identical; refuted without truncate for every shrink). Tie: correspondence of both models (extracted to OCaml) with util.update_custom_metadata and with the bytes update_file_custom_metadata leaves, on generated histories sweeping every footer delta in -8..+8 on data and _metadata files; the property oracle (dict semantics, prefix bytes, schema/row groups, readability) runs on every step.",
  "note": "Trusted: Coq kernel; ExtrOcamlBasic extraction + 100-line OCaml driver; OS write/truncate semantics as modelled; footer thrift content opaque (C10); Python harness glue. Theorems closed under the global context (no axioms).",
  "technique": "Coq proof (induction over update list / rewrite sequence) + model-vs-code correspondence via extracted model",
 },
}
NOT_APPLICABLE = {}
