#!/usr/bin/env python3
"""Regenerate MANIFEST.json from tools/manifest_data.py (keeps it valid at all times)."""
import json, os, sys
here = os.path.dirname(os.path.abspath(__file__))
import glob
class D: pass
D.CHECKS = {os.path.basename(f)[:-5]: json.load(open(f)) for f in sorted(glob.glob(os.path.join(here, "..", "manifest.d", "C*.json")))}
D.NOT_APPLICABLE = json.load(open(os.path.join(here, "..", "manifest.d", "not_applicable.json")))
# only checks the coordinator has seen pass on the unchanged tree are registered (manifest.d/enabled.json)
_en = os.path.join(here, "..", "manifest.d", "enabled.json")
if os.path.exists(_en):
    _ids = set(json.load(open(_en)))
    D.CHECKS = {k: v for k, v in D.CHECKS.items() if k in _ids}
props = [json.loads(l) for l in open(os.path.join(here, "..", "properties.jsonl"))]
ids = [p["id"] for p in props]
checks = []
for pid in ids:
    if pid in D.CHECKS:
        c = D.CHECKS[pid]
        checks.append({
            "property_id": pid,
            "quick_cmd": "./check %s --tier quick" % pid,
            "thorough_cmd": "./check %s --tier thorough" % pid,
            "evidence_file": "evidence/%s.json" % pid,
            "replay_cmd_template": "./check %s --replay {path}" % pid,
            "engine": "coq+harness",
            "level_claimed": {"category": "proof", "text": c["text"], "design_ref": "DESIGN.md section 6, " + pid},
            "level_note": c["note"],
            "technique": c["technique"],
        })
na = [{"property_id": pid, "reason": D.NOT_APPLICABLE.get(pid, "check not built yet (work in progress; see DESIGN.md section 8 staging)")}
      for pid in ids if pid not in D.CHECKS]
m = {
    "version": 1,
    "setup_cmd": "./setup.sh",
    "hooks": {
        "guard": "FASTPARQUET_VERIF",
        "enable": "no source hooks are needed: the checks import /repo's working-tree .py files through a shadow package (build/shadow) next to extension modules rebuilt from /repo/fastparquet/*.c; faults are injected through the public open_with/mkdirs parameters",
        "baseline_off_cmd": "cd /repo && /venv/bin/python -m pytest -ra -q -p no:cacheprovider --timeout=900 --continue-on-collection-errors",
        "source_commits": [],
        "add_only": True,
    },
    "engines": [
        {"name": "coq", "path": "coq", "serves_properties": sorted(D.CHECKS), "kind_free_text": "Coq 8.16.1 development: models (theories/Impl, Codec, ...), proofs (theories/Proofs), property statements (props/Cxx.v), proofs over regenerated code (genproofs/)"},
        {"name": "pqref", "path": "ocaml", "serves_properties": sorted(D.CHECKS), "kind_free_text": "models extracted to OCaml (ExtrOcamlBasic only) + s-expression driver; runs the models on the inputs the implementation ran"},
        {"name": "harness", "path": "harness", "serves_properties": sorted(D.CHECKS), "kind_free_text": "Python: shadow package/native rebuild, generators, correspondence + property oracles on the real code, known-finding filter, evidence"},
        {"name": "translators", "path": "translators", "serves_properties": [p for p in sorted(D.CHECKS) if D.CHECKS[p].get("translator")], "kind_free_text": "fail-closed Python-ast -> Gallina translators; output re-proved on every run"},
    ],
    "checks": checks,
    "not_applicable": na,
    "notes": "One entry point: ./check <ID> [--tier quick|thorough] [--replay FILE]. Known findings: known_findings.json. Design: DESIGN.md.",
}
json.dump(m, open(os.path.join(here, "..", "MANIFEST.json"), "w"), indent=1)
print("checks:", [c["property_id"] for c in checks], "not_applicable:", len(na))
# readable concatenation of the per-property finding files
fl, fs = [], []
for f in sorted(glob.glob(os.path.join(here, "..", "findings.d", "C*.json"))):
    d = json.load(open(f)); fl += d.get("fixed_log", []); fs += d.get("findings", [])
json.dump({"comment": "GENERATED from findings.d/*.json by tools/mkmanifest.py (the checks read findings.d directly). Genuine defects of the pinned dask/fastparquet tree (DESIGN.md section 7). 'open' entries are reported as KNOWN-FINDING and suppress only failing cases whose classification matches 'signature'; 'fixed: <commit>' entries suppress nothing.",
           "fixed_log": fl, "findings": fs}, open(os.path.join(here, "..", "known_findings.json"), "w"), indent=1)
