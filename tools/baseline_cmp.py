#!/usr/bin/env python3
"""tools/baseline_cmp.py <repo dir>: run the repository's suite there and compare with BASELINE.json stable_pass."""
import json, os, subprocess, sys, tempfile
import xml.etree.ElementTree as ET
d = os.path.abspath(sys.argv[1])
jx = tempfile.mktemp(suffix=".xml", prefix="verif-junit-", dir="/tmp")
env = dict(os.environ, PYTHONPATH=d, PYTHONDONTWRITEBYTECODE="1")
env.pop("FASTPARQUET_VERIF", None)
p = subprocess.run(["/venv/bin/python", "-m", "pytest", "-q", "-p", "no:cacheprovider", "--timeout=900",
                    "--continue-on-collection-errors", "--junitxml=" + jx], cwd=d, env=env, capture_output=True, text=True)
print(p.stdout.strip().split("\n")[-1])
stable = set(json.load(open("/root/.vp/BASELINE.json"))["stable_pass"])
passed = set()
for tc in ET.parse(jx).getroot().iter("testcase"):
    if not any(ch.tag in ("failure", "error", "skipped") for ch in tc):
        passed.add(tc.get("classname") + "::" + tc.get("name"))
os.remove(jx)
missing = sorted(stable - passed)
print("stable tests no longer passing:", len(missing))
for m in missing:
    print("  ", m)
print("newly passing (outside the baseline):", len(passed - stable))
sys.exit(1 if missing else 0)
