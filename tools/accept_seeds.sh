#!/bin/bash
# tools/accept_seeds.sh <ID> [k ...]: confirm /tmp/seed-<ID>/out/<k> (default 5 6) independently, keep as seeded/<ID>-<k>, drop the seeder's worktree, run the quick check against them
id=$1; shift; ks=${@:-5 6}
kept=""
for k in $ks; do
  python3 /verif/tools/verify_seed.py /tmp/seed-$id/out/$k --keep-as $id-$k > /tmp/verif-accept-$id-$k.log 2>&1 && kept="$kept $id-$k" || { echo "NOT CONFIRMED $id-$k"; tail -30 /tmp/verif-accept-$id-$k.log; }
done
git -C /repo worktree remove --force /tmp/seed-$id 2>/dev/null; rm -rf /tmp/seed-$id; git -C /repo worktree prune
[ -n "$kept" ] && python3 /verif/tools/run_seeded_par.py -j 2 $kept
rm -f /tmp/verif-accept-$id-*.log
