#!/bin/bash
# tools/rebase_seed.sh <dir>: re-create <dir>/patch.diff against /repo HEAD with a 3-way apply (scratch worktree, removed afterwards)
set -e
d=$(readlink -f $1); wt=$(mktemp -d /tmp/vrebase-XXXXXX); rmdir $wt
git -C /repo worktree add -q --detach $wt HEAD
( cd $wt && git apply -3 $d/patch.diff && git diff HEAD > $d/patch.diff.new ) || { echo "REBASE FAILED $d"; git -C /repo worktree remove --force $wt; exit 1; }
git -C /repo worktree remove --force $wt
mv $d/patch.diff $d/patch.diff.orig; mv $d/patch.diff.new $d/patch.diff
echo "rebased $d"
