#!/usr/bin/env python3
"""tools/verify_seed.py <dir> [--keep-as ID-k]

Independent confirmation of a seeded change (dir holds patch.diff, demo.py, meta.json):
  1. scratch worktree of /repo HEAD under /tmp (removed at the end, with its build output)
  2. demo on the clean tree  -> must exit 0
  3. git apply patch, demo   -> must exit != 0
  4. the 339 stable baseline tests must still pass with the patch applied
Prints a JSON verdict; with --keep-as copies the three files (+ verdict into meta.json) to /verif/seeded/<ID-k>/.
"""
import json, os, shutil, subprocess, sys, tempfile, glob
import xml.etree.ElementTree as ET

PY = "/venv/bin/python"


def sh(cmd, cwd=None, env=None, timeout=1800):
    p = subprocess.run(cmd, shell=True, cwd=cwd, env=env, capture_output=True, text=True, timeout=timeout)
    return p.returncode, (p.stdout + p.stderr)[-3000:]


def main():
    d = os.path.abspath(sys.argv[1])
    keep = sys.argv[3] if len(sys.argv) > 3 and sys.argv[2] == "--keep-as" else None
    wt = tempfile.mkdtemp(prefix="vseed-", dir="/tmp")
    os.rmdir(wt)
    verdict = {"dir": d}
    try:
        rc, out = sh("git -C /repo worktree add -q --detach %s HEAD" % wt)
        assert rc == 0, out
        for f in glob.glob("/repo/fastparquet/*.c") + glob.glob("/repo/fastparquet/*.so"):
            shutil.copy(f, os.path.join(wt, "fastparquet"))
        env = dict(os.environ, PYTHONPATH=wt, PYTHONHASHSEED="0", PYTHONDONTWRITEBYTECODE="1")
        rc, out = sh("%s %s/demo.py" % (PY, d), cwd=wt, env=env, timeout=900)
        verdict["demo_clean_rc"] = rc
        verdict["demo_clean_tail"] = out[-300:]
        rc, out = sh("git apply %s/patch.diff" % d, cwd=wt)
        verdict["apply_rc"] = rc
        if rc != 0:
            verdict["apply_err"] = out
        if rc == 0 and ".c" in " ".join(l for l in open(d + "/patch.diff") if l.startswith("+++ ")):
            # the change is in a generated C file: rebuild the extension(s) it touches in the scratch tree
            for name in ("cencoding", "speedups"):
                if ("fastparquet/%s.c" % name) in open(d + "/patch.diff").read():
                    rc2, out2 = sh("gcc -shared -fPIC -O2 -fwrapv -w -I/venv/lib/python3.12/site-packages/numpy/_core/include "
                                   "-I/root/.pyenv/versions/3.12.1/include/python3.12 fastparquet/%s.c "
                                   "-o fastparquet/%s.cpython-312-x86_64-linux-gnu.so" % (name, name), cwd=wt)
                    verdict["rebuild_" + name] = rc2
        rc, out = sh("%s %s/demo.py" % (PY, d), cwd=wt, env=env, timeout=900)
        verdict["demo_changed_rc"] = rc
        verdict["demo_changed_tail"] = out[-600:]
        jx = wt + "-junit.xml"
        rc, out = sh("%s -m pytest -q -p no:cacheprovider --timeout=900 --continue-on-collection-errors --junitxml=%s" % (PY, jx),
                     cwd=wt, env=env, timeout=3000)
        stable = set(json.load(open("/root/.vp/BASELINE.json"))["stable_pass"])
        passed = set()
        for tc in ET.parse(jx).getroot().iter("testcase"):
            if not any(ch.tag in ("failure", "error", "skipped") for ch in tc):
                passed.add(tc.get("classname") + "::" + tc.get("name"))
        os.remove(jx)
        missing = sorted(stable - passed)
        verdict["baseline_missing"] = missing
        verdict["ok"] = (verdict["demo_clean_rc"] == 0 and verdict["apply_rc"] == 0
                         and verdict["demo_changed_rc"] != 0 and not missing)
    finally:
        sh("git -C /repo worktree remove --force %s" % wt)
        shutil.rmtree(wt, ignore_errors=True)
    print(json.dumps(verdict, indent=1))
    if keep and verdict.get("ok"):
        dst = os.path.join("/verif/seeded", keep)
        os.makedirs(dst, exist_ok=True)
        for f in ("patch.diff", "demo.py"):
            shutil.copy(os.path.join(d, f), dst)
        meta = json.load(open(os.path.join(d, "meta.json")))
        meta["confirmed_by_coordinator"] = {
            "repo_head": subprocess.run("git -C /repo rev-parse --short HEAD", shell=True, capture_output=True, text=True).stdout.strip(),
            "ran": ["demo.py on clean scratch worktree -> exit 0", "git apply patch.diff; demo.py -> exit %d" % verdict["demo_changed_rc"],
                    "baseline suite with patch: all 339 stable tests pass"],
            "demo_changed_tail": verdict["demo_changed_tail"][-300:]}
        json.dump(meta, open(os.path.join(dst, "meta.json"), "w"), indent=1)
        print("kept as", dst)
    sys.exit(0 if verdict.get("ok") else 1)


if __name__ == "__main__":
    main()
