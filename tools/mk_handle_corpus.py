#!/usr/bin/env python3
"""How corpus/C06/hp_*.json and corpus/C17/hp_*.json were produced: for each variant of the tree with a handle-coherence defect
(a seeded patch, or the parent of a fix commit) run the offender-aimed and random handle programs (harness/handleprog.py) on
the variant and keep the first minimised failing program.  usage (VERIF_REPO = a scratch worktree whose working tree carries
the variant):  tools/mk_handle_corpus.py NAME CLASS OUT.json"""
import json
import os
import random
import sys
import warnings

sys.path.insert(0, os.path.dirname(os.path.dirname(os.path.abspath(__file__))))
warnings.filterwarnings("ignore")
from harness import common as C          # noqa
C.use_shadow()
from harness import handleprog as HP     # noqa
from translators import handle2coq       # noqa

name, cls, out = sys.argv[1:4]
try:
    inv = handle2coq.analyse(C.REPO)
    aims = [(o, a) for o, a, _ in handle2coq.offenders(inv)]
except handle2coq.TranslatorError:
    inv, aims = json.load(open(os.path.join(C.VERIF, "harness", "handle_inventory_pinned.json"))), []
rng = random.Random(7)
corners = [{"scheme": "simple", "sizes": [5, 3, 7, 2], "nullrgs": [0], "given": False}, {"scheme": "hive", "part": True, "sizes": [4, 2, 6], "nullrgs": [1], "given": False},
           {"scheme": "hive", "part": False, "sizes": [9, 1, 3, 5], "nullrgs": [0, 2], "given": False}, {"scheme": "simple", "sizes": [3, 8, 2], "nullrgs": [1], "given": True}]
cands = []
for force in corners:
    for aim in aims[:6]:
        ds = HP.gen_dataset(rng, force)
        cands.append((ds, HP.gen_program(rng, ds, aim=aim)))
for i in range(60):
    ds = HP.gen_dataset(rng, corners[i % 4] if i < 16 else None)
    cands.append((ds, HP.gen_program(rng, ds)))
best = None
for ds, prog in cands:
    r = HP.run_job({"ds": ds, "progs": [prog], "inventory": inv})["results"][0]
    if r["result"] and r["result"]["problems"]:
        if best is None or len(r["prog"]) < len(best[1]):
            best = (ds, r["prog"], r["result"]["problems"][0])
        if len(best[1]) <= 5:
            break
if best is None:
    print(name, "no failing program found")
    sys.exit(1)
json.dump({"handle_program": {"ds": best[0], "prog": best[1]}, "class": cls, "from": name, "failed_with": best[2][2][:300]}, open(out, "w"), indent=1)
print(name, "->", out, len(best[1]), "steps:", best[2][0], best[2][2][:120])
