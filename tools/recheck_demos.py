#!/usr/bin/env python3
"""tools/recheck_demos.py [-j N] [ID-k ...]: does each seeded change still manifest on /repo HEAD?
Scratch worktrees under /tmp (removed), demo on the clean tree must exit 0, with the patch != 0.
Writes the verdict into seeded/<ID-k>/meta.json under "manifests_on_head"."""
import glob, json, os, shutil, subprocess, sys, threading, queue
V = "/verif"; PY = "/venv/bin/python"
def sh(cmd, cwd=None, env=None, timeout=1800):
    try:
        p = subprocess.run(cmd, shell=True, cwd=cwd, env=env, capture_output=True, text=True, timeout=timeout)
        return p.returncode, (p.stdout + p.stderr)[-1500:]
    except subprocess.TimeoutExpired:
        return 124, "TIMEOUT"
GCC = ("gcc -shared -fPIC -O2 -fwrapv -w -I/venv/lib/python3.12/site-packages/numpy/_core/include "
       "-I/root/.pyenv/versions/3.12.1/include/python3.12 fastparquet/%s.c -o fastparquet/%s.cpython-312-x86_64-linux-gnu.so")
def main():
    args = sys.argv[1:]; j = 6
    if "-j" in args:
        i = args.index("-j"); j = int(args[i + 1]); del args[i:i + 2]
    names = args or sorted(os.path.basename(d) for d in glob.glob(V + "/seeded/C*-*"))
    head = subprocess.run("git -C /repo rev-parse --short HEAD", shell=True, capture_output=True, text=True).stdout.strip()
    q = queue.Queue(); [q.put(n) for n in names]; lock = threading.Lock()
    def worker(k):
        wt = "/tmp/verif-demoslot-%d-%d" % (os.getpid(), k)
        sh("git -C /repo worktree add -q --detach %s HEAD" % wt)
        for f in glob.glob("/repo/fastparquet/*.c") + glob.glob("/repo/fastparquet/*.so"):
            shutil.copy(f, wt + "/fastparquet")
        env = dict(os.environ, PYTHONPATH=wt, PYTHONHASHSEED="0", PYTHONDONTWRITEBYTECODE="1")
        try:
            while True:
                try: n = q.get_nowait()
                except queue.Empty: return
                d = V + "/seeded/" + n
                rc0, _ = sh("%s %s/demo.py" % (PY, d), cwd=wt, env=env)
                rca, oa = sh("git apply %s/patch.diff" % d, cwd=wt)
                native = [m for m in ("cencoding", "speedups") if ("fastparquet/%s.c" % m) in open(d + "/patch.diff").read()]
                for m in native: sh(GCC % (m, m), cwd=wt)
                rc1, o1 = sh("%s %s/demo.py" % (PY, d), cwd=wt, env=env) if rca == 0 else (None, oa)
                sh("git apply -R %s/patch.diff" % d, cwd=wt); sh("git checkout -- .", cwd=wt)
                for f in glob.glob("/repo/fastparquet/*.c") + glob.glob("/repo/fastparquet/*.so"):
                    shutil.copy(f, wt + "/fastparquet")
                v = {"repo_head": head, "demo_clean_rc": rc0, "apply_rc": rca, "demo_changed_rc": rc1,
                     "manifests": bool(rc0 == 0 and rca == 0 and rc1 not in (0, None))}
                with lock:
                    m = json.load(open(d + "/meta.json")); m["manifests_on_head"] = v
                    json.dump(m, open(d + "/meta.json", "w"), indent=1)
                    print(n, "manifests" if v["manifests"] else "DOES NOT MANIFEST %s" % v, flush=True)
        finally:
            sh("git -C /repo worktree remove --force %s" % wt); shutil.rmtree(wt, ignore_errors=True)
    ts = [threading.Thread(target=worker, args=(k,)) for k in range(j)]
    [t.start() for t in ts]; [t.join() for t in ts]
    sh("git -C /repo worktree prune")
main()
