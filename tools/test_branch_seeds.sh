#!/bin/bash
# tools/test_branch_seeds.sh <branch> <seed ...>: run seeded changes against a builder branch's checks in a private test worktree
b=$1; shift
T=/work/test/$b; mkdir -p $T
if [ -d $T/verif ]; then git -C $T/verif checkout -q -- . ; git -C $T/verif checkout -q --detach $b; else git -C /verif worktree add -q --detach $T/verif $b; fi
if [ -d $T/repo ]; then git -C $T/repo checkout -q --detach main; else git -C /repo worktree add -q --detach $T/repo main; cp /repo/fastparquet/*.c $T/repo/fastparquet/; fi
cd $T/verif; export VERIF_REPO=$T/repo
for s in "$@"; do
  pid=${s%-*}
  git -C $T/repo apply /verif/seeded/$s/patch.diff || { echo "$s: PATCH DOES NOT APPLY"; continue; }
  t0=$(date +%s)
  timeout 1500 ./check $pid --tier quick > $T/$s.log 2>&1; rc=$?
  git -C $T/repo apply -R /verif/seeded/$s/patch.diff; git -C $T/repo checkout -q -- .
  echo "$s on $b@$(git rev-parse --short HEAD): exit $rc, $(( $(date +%s) - t0 ))s, $(grep -c '^VIOLATION' $T/$s.log) violation lines, $(grep -c 'no-failing-input-found' $T/$s.log) without input"
  grep '^VIOLATION' $T/$s.log | head -2
  tail -1 $T/$s.log | cut -c1-300
done
