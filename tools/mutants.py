#!/usr/bin/env python3
"""tools/mutants.py Cxx  – apply each seeded change of selftest/Cxx.json to $VERIF_REPO's working tree, run the quick
check, record the outcome, restore the tree (git checkout).  Prints a markdown table."""
import json, os, subprocess, sys
pid = sys.argv[1]
only = sys.argv[2:] 
here = os.path.dirname(os.path.dirname(os.path.abspath(__file__)))
repo = os.environ["VERIF_REPO"]
assert repo != "/repo"
muts = json.load(open(os.path.join(here, "selftest", pid + ".json")))
rows = []
for m in muts:
    if only and m["id"] not in only:
        continue
    path = os.path.join(repo, m["file"])
    src = open(path).read()
    assert src.count(m["old"]) == 1, (m["id"], src.count(m["old"]))
    open(path, "w").write(src.replace(m["old"], m["new"]))
    try:
        p = subprocess.run([os.path.join(here, "check"), pid, "--tier", "quick"], stdout=subprocess.PIPE, stderr=subprocess.STDOUT, timeout=3000,
                           env={**os.environ, "VERIF_SEED": str(m.get("seed", 1))})
        out = p.stdout.decode()
    finally:
        open(path, "w").write(src)
    viol = [l for l in out.split("\n") if l.startswith("VIOLATION")]
    summary = [l for l in out.split("\n") if l.startswith(pid + " quick")]
    kind = "silent" if not viol else ("no-failing-input-found" if all("no-failing-input-found" in v for v in viol) else "concrete replay")
    detail = ""
    if viol and kind == "concrete replay":
        rp = viol[0].split("replay=")[1].split()[0]
        r = json.load(open(rp))
        detail = "%s/%s: %s" % (r["class"].get("component"), r["class"].get("what"), r["detail"][:110])
        # replay must reproduce on the mutated tree
        open(path, "w").write(src.replace(m["old"], m["new"]))
        try:
            rr = subprocess.run([os.path.join(here, "check"), pid, "--replay", rp], stdout=subprocess.PIPE, stderr=subprocess.STDOUT, env=os.environ, timeout=1200)
        finally:
            open(path, "w").write(src)
        detail += " | replay rc=%d" % rr.returncode
    elif viol:
        rp = viol[0].split("replay=")[1].split()[0]
        r = json.load(open(rp))
        detail = "; ".join("%s: %s" % (b["kind"], b["name"]) for b in r.get("no_longer_checks", [])[:3])[:200]
    ok = (kind == "silent") == (m["expect"] == "silent") and (m["expect"] != "replay" or kind == "concrete replay")
    rows.append("| %s | %s | %s | %s | %s | %s | %s |" % (m["id"], m["kind"], m["file"].split("/")[-1], m["what"], m["expect"], kind, ("OK " if ok else "MISSED ") + detail.replace("|", "/")))
    print(rows[-1], flush=True)
    print("   ", summary[-1] if summary else out[-300:], flush=True)
subprocess.run(["git", "-C", repo, "status", "--short"])
