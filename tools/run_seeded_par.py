#!/usr/bin/env python3
"""tools/run_seeded_par.py [-j N] [--own-only] [ID-k ...]   (default: every directory under /verif/seeded)

Parallel variant of run_seeded.py that never touches /repo: every slot owns a private copy of /verif
(rsync incl. its build output) and a scratch git worktree of /repo HEAD (+ the generated .c files) under
/tmp/verif-seedslot-<k>; a seeded change is applied to the slot's worktree and the quick check runs with
VERIF_REPO pointing there.  Slots are removed at the end.  Results are merged into seeded/RESULTS.json.
"""
import glob, json, os, shutil, subprocess, sys, time, threading, queue

V = "/verif"


def sh(cmd, cwd=None, env=None, timeout=3600):
    try:
        p = subprocess.run(cmd, shell=True, cwd=cwd, env=env, capture_output=True, text=True, timeout=timeout)
        return p.returncode, p.stdout + p.stderr
    except subprocess.TimeoutExpired as e:
        return 124, "TIMEOUT"


def make_slot(k):
    root = "/tmp/verif-seedslot-%d-%d" % (os.getpid(), k)
    if os.path.exists(root):
        sh("git -C /repo worktree remove --force %s/repo" % root)
        shutil.rmtree(root, ignore_errors=True)
    os.makedirs(root)
    rc, out = sh("rsync -a --exclude .git --exclude replays %s/ %s/verif/" % (V, root))
    assert rc == 0, out
    rc, out = sh("git -C /repo worktree add -q --detach %s/repo HEAD" % root)
    assert rc == 0, out
    for f in glob.glob("/repo/fastparquet/*.c"):
        shutil.copy(f, os.path.join(root, "repo", "fastparquet"))
    return root


def drop_slot(root):
    sh("git -C /repo worktree remove --force %s/repo" % root)
    shutil.rmtree(root, ignore_errors=True)
    sh("git -C /repo worktree prune")


def run_one(root, n, own_only):
    d = os.path.join(V, "seeded", n)
    meta = json.load(open(os.path.join(d, "meta.json")))
    pids = [meta["property"]] + ([] if own_only else meta.get("also_check", []))
    repo = root + "/repo"
    res = {}
    rc, out = sh("git apply %s/patch.diff" % d, cwd=repo)
    if rc != 0:
        return {"error": "patch does not apply: " + out[-300:]}
    try:
        env = dict(os.environ, VERIF_REPO=repo)
        for pid in pids:
            t = time.time()
            rc, out = sh("./check %s --tier quick" % pid, cwd=root + "/verif", env=env, timeout=2400)
            vio = [l for l in out.splitlines() if l.startswith("VIOLATION")]
            first = None
            if vio:
                p = vio[0].split("replay=")[1].split()[0]
                try:
                    first = open(p).read()[:1500]
                except Exception:
                    pass
            res[pid] = {"exit": rc, "violation_lines": vio[:5], "wall_s": round(time.time() - t, 1),
                        "caught": rc == 1 and bool(vio),
                        "concrete_replay": bool(vio) and not any("no-failing-input-found" in l for l in vio),
                        "first_replay_head": first,
                        "tail": out[-400:] if not vio else ""}
    finally:
        sh("git apply -R %s/patch.diff" % d, cwd=repo)
        sh("git checkout -- .", cwd=repo)
        for f in glob.glob("/repo/fastparquet/*.c"):
            shutil.copy(f, os.path.join(repo, "fastparquet"))
    return res


def main():
    args = sys.argv[1:]
    j = 4
    own_only = False
    if "-j" in args:
        i = args.index("-j"); j = int(args[i + 1]); del args[i:i + 2]
    if "--own-only" in args:
        own_only = True; args.remove("--own-only")
    names = args or sorted(n for n in os.listdir(os.path.join(V, "seeded")) if os.path.isdir(os.path.join(V, "seeded", n)))
    q = queue.Queue()
    for n in names:
        q.put(n)
    respath = os.environ.get("SEEDED_RESULTS") or os.path.join(V, "seeded", "RESULTS.json")
    results = json.load(open(respath)) if os.path.exists(respath) else {}
    lock = threading.Lock()

    def worker(k):
        root = make_slot(k)
        try:
            while True:
                try:
                    n = q.get_nowait()
                except queue.Empty:
                    return
                r = run_one(root, n, own_only)
                with lock:
                    if own_only and isinstance(results.get(n), dict) and "error" not in r:
                        results[n].update(r)
                    else:
                        results[n] = r
                    json.dump(results, open(respath, "w"), indent=1, sort_keys=True)
                    for pid, x in r.items():
                        if isinstance(x, dict):
                            print(n, pid, "caught" if x["caught"] else "MISSED", "concrete" if x["concrete_replay"] else "", x["wall_s"], "s", flush=True)
                        else:
                            print(n, pid, x, flush=True)
        finally:
            drop_slot(root)

    ts = [threading.Thread(target=worker, args=(k,)) for k in range(min(j, len(names)))]
    for t in ts:
        t.start()
    for t in ts:
        t.join()


if __name__ == "__main__":
    main()
