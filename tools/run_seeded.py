#!/usr/bin/env python3
"""tools/run_seeded.py [ID-k ...]   (default: every directory under /verif/seeded)

For each seeded change: apply patch.diff to /repo's working tree, run the quick check of the property it
breaks (and any extra ids given in meta.json "also_check"), undo it straight afterwards
(git -C /repo checkout -- .), and record whether the check raised VIOLATION with a concrete replay.
Refuses to start when /repo has uncommitted changes to tracked files.  Results: seeded/RESULTS.json.
"""
import json, os, subprocess, sys, time

V = "/verif"


def sh(cmd, timeout=3600):
    p = subprocess.run(cmd, shell=True, cwd=V, capture_output=True, text=True, timeout=timeout)
    return p.returncode, p.stdout + p.stderr


def main():
    names = sys.argv[1:] or sorted(n for n in os.listdir(os.path.join(V, "seeded")) if os.path.isdir(os.path.join(V, "seeded", n)))
    rc, out = sh("git -C /repo status --porcelain --untracked-files=no")
    if out.strip():
        print("/repo is dirty; refusing", out); sys.exit(2)
    respath = os.path.join(V, "seeded", "RESULTS.json")
    results = json.load(open(respath)) if os.path.exists(respath) else {}
    for n in names:
        d = os.path.join(V, "seeded", n)
        meta = json.load(open(os.path.join(d, "meta.json")))
        pids = [meta["property"]] + meta.get("also_check", [])
        rc, out = sh("git -C /repo apply %s/patch.diff" % d)
        if rc != 0:
            results[n] = {"error": "patch does not apply: " + out[-300:]}
            print(n, "PATCH DOES NOT APPLY"); continue
        try:
            for pid in pids:
                t = time.time()
                rc, out = sh("./check %s --tier quick" % pid)
                vio = [l for l in out.splitlines() if l.startswith("VIOLATION")]
                r = {"exit": rc, "violation_lines": vio[:5], "wall_s": round(time.time() - t, 1),
                     "caught": rc == 1 and bool(vio),
                     "concrete_replay": bool(vio) and not any("no-failing-input-found" in l for l in vio),
                     "tail": out[-400:] if not vio else ""}
                results.setdefault(n, {})[pid] = r
                print(n, pid, "caught" if r["caught"] else "MISSED", "concrete" if r["concrete_replay"] else "", r["wall_s"], "s", flush=True)
        finally:
            sh("git -C /repo apply -R %s/patch.diff" % d)      # also restores untracked generated .c files
            sh("git -C /repo checkout -- .")
        json.dump(results, open(respath, "w"), indent=1, sort_keys=True)
    rc, out = sh("git -C /repo status --porcelain --untracked-files=no")
    assert not out.strip(), out


if __name__ == "__main__":
    main()
