import sys, os, json
ROOT = os.path.dirname(os.path.dirname(os.path.abspath(__file__)))
sys.path.insert(0, ROOT)
import numpy as np, pandas as pd
from harness import partlib as L
def case(name, df, on, scheme, rgo, what, fixed):
    c = {"scheme": scheme, "on": on, "rgo": rgo, "n": len(df), "frame": L.frame_to_data(df), "confirm": False,
         "dist": {"scheme": scheme, "rgo_kind": "none" if rgo is None else ("int" if isinstance(rgo, int) else "list"), "n_on": len(on), "kinds": ["corpus"] * len(on)},
         "what": what, "fixed_by": fixed}
    json.dump(c, open(ROOT + '/corpus/C08/%s.json' % name, 'w'), indent=1)
base = lambda n: {"id": np.arange(n, dtype="int64"), "p": np.array([0.5] * n), "q": pd.Series(["u"] * n, dtype=object)}
case("drill-mixed-text", pd.DataFrame({**base(4), "k": pd.Series(["a", "2", "a", "2"], dtype=object)}), ["k"], "drill", None,
     "drill level mixing plain text and number-looking text: ValueError '2 is not in list' on read", "2ae7489")
case("drill-mixed-text-3", pd.DataFrame({**base(6), "k": pd.Series(["1", "x", "2020-01-01", "0.7", "True", "x"], dtype=object)}), ["k"], "drill", [0, 3],
     "drill level mixing text with int/date/float/bool-looking text", "2ae7489")
case("allnull-chunk-categorical", pd.DataFrame({**base(4), "c": pd.Categorical(["a", "a", "b", "a"], categories=["a", "b", "z"]),
                                                "d": pd.Series([None, None, "k", "k"], dtype=object)}), ["c", "d"], "hive", 2,
     "categorical key next to a key column that is all NULL inside one row group: IndexError from groupby(observed=False)", "d63c479")
case("nullable-float-key", pd.DataFrame({**base(4), "k": pd.array([1.5, 2.0, None, 1.5], dtype="Float64")}), ["k"], "hive", None,
     "nullable Float64 partition column: TypeError data type 'Float64' not understood on open", "bf62d13")
case("tz-aware-key", pd.DataFrame({**base(3), "k": pd.Series(pd.to_datetime(["2020-01-01 00:00:00", "2020-10-25 00:30:00", "2020-10-25 01:30:00"], utc=True)).dt.tz_convert("Europe/Berlin")}),
     ["k"], "hive", None, "tz-aware datetime partition column (incl. Berlin's repeated hour): TypeError on open", "78f270d")
case("drill-dirN-collision", pd.DataFrame({**base(2), "k": pd.Series(["-3", "x"], dtype=object), "dir0": np.array([True, False])}), ["k", "dir0"], "drill", None,
     "a partition column itself called dir0 typed level 0 of the drill layout", "b6723cb")
case("float32-widening", pd.DataFrame({**base(3), "k": np.array([0.1, 1e10, 0.1], dtype="float32")}), ["k"], "hive", None,
     "float32 keys are handed over widened: directory text is the repr of the exact double (false alarm of the first oracle)", "harness")
# C14
def c14(name, c):
    json.dump(c, open(ROOT + '/corpus/C14/%s.json' % name, 'w'), indent=1)
f = lambda d, name, n, off, **kw: {"dir": d, "name": name, "n": n, "off": off, "codec": None, "rgo": None, "cats": None, **kw}
c14("instances-of-datasets", {"shape": "subdatasets", "files": [f(["sub0"], "", 3, 0), f(["sub1"], "", 2, 4)], "root_mode": "inferred", "cat_mode": "none",
                              "verify": False, "bad_schema": None, "what": "list of ParquetFile instances of hive sub-datasets re-pathed below <dir>/_metadata", "fixed_by": "3306fff"})
c14("empty-file-in-fast-path", {"shape": "flat", "files": [f([], "f0.parquet", 3, 0), f([], "f1.parquet", 0, 4), f([], "f2.parquet", 4, 5), f([], "f3.parquet", 2, 10)],
                                "root_mode": "inferred", "cat_mode": "none", "verify": True, "bad_schema": None,
                                "what": "a file with 0 rows among >= 3 files, with verify", "fixed_by": "none (regression guard)"})
c14("single-top-level-value-needs-root", {"shape": "hive", "files": [f(["k=a"], "f0.parquet", 2, 0), f(["k=a"], "f1.parquet", 1, 3)], "root_mode": "given", "cat_mode": "none",
                                          "verify": False, "bad_schema": None, "what": "all files below one key value: the partition column exists only with root given", "fixed_by": "none (documented behaviour)"})
print("ok")
# wave 2 additions (kept here so that the corpus can be regenerated)
case("categorical-typed-labels", pd.DataFrame({**base(4), "c": pd.Categorical([1, 10, 1, 2], categories=[10, 1, 2, 5]), "b": pd.Categorical([True, False, True, True])}),
     ["c", "b"], "hive", 2, "categorical partition columns with integer / boolean labels came back as text", "34e2c68")
case("percent-sequences", pd.DataFrame({**base(6), "k": pd.Series(["a%2Fb", "A%42", "AB", "%41", "A", "x%25"], dtype=object)}), ["k"], "hive", 3,
     "text keys with percent sequences must not be decoded (seeded C08-4)", "regression guard")
case("cat-text-labels-next-to-int8", pd.DataFrame({**base(4), "c": pd.Categorical(["1", "2", "1", "7"]), "i": np.array([1, 2, 7, 1], dtype="int8")}), ["c", "i"], "hive", None,
     "text labels '1','2' of a categorical (int8 codes) next to an int8 column with the same texts: a memo keyed by (text, numpy_type) mixes them (seeded C08-3)", "regression guard")

# wave 3 additions
def case_ix(name, df, on, scheme, rgo, index, write_index, what, fixed):
    case(name, df, on, scheme, rgo, what, fixed)
    pth = ROOT + '/corpus/C08/%s.json' % name
    c = json.load(open(pth))
    c["index"], c["write_index"] = index, write_index
    c["dist"].update(index=index["kind"], write_index=str(write_index))
    json.dump(c, open(pth, 'w'), indent=1)
case_ix("duplicate-row-labels", pd.DataFrame({**base(12), "k": np.array([0, 1, 2] * 4, dtype="int64")}), ["k"], "hive", [0, 2, 9],
        {"kind": "concat", "values": list(range(6)) + list(range(6)), "names": [None]}, False,
        "frame from pd.concat without ignore_index (row labels 0..5, 0..5), index not stored: rows must be placed by POSITION (seeded C08-5 selected "
        "each group's rows by label)", "regression guard")
case_ix("multiindex-repeated-tuples", pd.DataFrame({**base(6), "k": pd.Series(["a", "b", "a", "b", "a", "a"], dtype=object)}), ["k"], "drill", 4,
        {"kind": "multi", "values": [["x", 0], ["x", 0], ["y", 1], ["x", 0], ["y", 1], ["y", 1]], "names": ["L0", "L1"]}, True,
        "MultiIndex with repeated tuples, stored", "regression guard")
case("one-key-and-nulls", pd.DataFrame({**base(7), "k": pd.Series([None, "a", None, "a", None, None, None], dtype=object)}), ["k"], "hive", 2,
     "ONE distinct key + NULL keys in a row group, row groups of NULL keys only (C08_single_key_with_nulls, C08_all_null_chunk_writes_nothing)", "regression guard")
case("unicode-digit-keys", pd.DataFrame({**base(5), "k": pd.Series(["\u0663", "3", "\uff11\uff12", "12", "\u00a07"], dtype=object)}), ["k"], "hive", None,
     "text keys that int() reads as numbers (ARABIC-INDIC / FULLWIDTH digits, NO-BREAK SPACE): they are text and distinct from '3', '12'", "regression guard")
c14("underscore-and-dot-names", {"shape": "drill", "files": [f(["a"], "f0.parquet", 2, 0), f(["_na"], "f1.parquet", 3, 3), f([".hid"], "_f2.parquet", 1, 7)],
                                 "root_mode": "inferred", "cat_mode": "none", "verify": False, "bad_schema": None, "dup": None, "relative": False, "junk": True,
                                 "dir_slash": False, "colperm": None,
                                 "what": "directory values and file names starting with '_' or '.' are data (seeded C14-6 dropped them from the listing)", "fixed_by": "regression guard"})
# wave 6: related partition column names, both orders (seeded C08-10 searched the path text for "<name>=" unanchored)
case("related-names-tail-second", pd.DataFrame({**base(6), "fiscal_year": np.array([2020, 2021, 2020, 2021, 2020, 2021], dtype="int64"),
                                              "year": pd.Series(["a", "a", "b", "b", "a", "b"], dtype=object)}), ["fiscal_year", "year"], "hive", 4,
     "partition_on=['fiscal_year', 'year']: the level of `year` must be found by its own name, not inside 'fiscal_year=...'", "regression guard")
case("related-names-tail-first", pd.DataFrame({**base(6), "year": np.array([1999, 2000, 1999, 2000, 1999, 2000], dtype="int64"),
                                             "fiscal_year": np.array([True, False, True, True, False, False])}), ["year", "fiscal_year"], "hive", None,
     "partition_on=['year', 'fiscal_year'] (the shorter name first)", "regression guard")
# final: white space at the ends of text keys, and pairs differing only by it (seeded C08-9 stripped every path part) - fixed block, every run
case("whitespace-keys-hive", pd.DataFrame({**base(8), "k": pd.Series(["x", "x ", "y\t", "x", "x ", "z ", "y\t", "x  "], dtype=object)}), ["k"], "hive", 3,
     "hive text keys ending with ' ' / tab, 'x' vs 'x ' vs 'x  ': distinct directories, values come back unstripped", "regression guard")
case("whitespace-keys-drill", pd.DataFrame({**base(8), "k": pd.Series([" x", "x", "x ", "\ty", "x", " x", "y\t", "x "], dtype=object)}), ["k"], "drill", None,
     "drill text keys beginning / ending with ' ' / tab, ' x' vs 'x' vs 'x '", "regression guard")
case("whitespace-keys-categorical", pd.DataFrame({**base(6), "c": pd.Categorical(["a ", "a", " b", "a ", "a", " b"], categories=["a", "a ", " b", "b"]),
                                                 "k": pd.Series(["u ", "u", "u ", "u", "u ", "u"], dtype=object)}), ["c", "k"], "hive", 2,
     "categorical labels and text keys differing only by white space at an end, two levels", "regression guard")
