#!/bin/bash
# tools/mutants.sh <ID> <file-with-mutants>: each line  NAME|FILE|PYTHON-EXPR-OLD|NEW  (old/new are literal strings, \n allowed)
# applies each mutant to $VERIF_REPO, runs ./check <ID> --tier quick, prints outcome, restores the tree.
ID=$1; LIST=$2
cd "$(dirname "$0")/.."
while IFS='|' read -r name file old new; do
  [ -z "$name" ] && continue
  /venv/bin/python - "$VERIF_REPO/$file" "$old" "$new" <<'PY' || { echo "$name: PATTERN NOT FOUND"; continue; }
import sys
p,old,new=sys.argv[1:4]
old=old.encode().decode('unicode_escape'); new=new.encode().decode('unicode_escape')
s=open(p).read()
if s.count(old)!=1: sys.exit(1)
open(p,'w').write(s.replace(old,new))
PY
  out=$(timeout 1200 ./check $ID --tier quick 2>&1 | grep -v "WARNING conda")
  rc=$?
  v=$(echo "$out" | grep -c '^VIOLATION')
  nf=$(echo "$out" | grep -c 'no-failing-input-found')
  echo "$name: violations=$v no-failing-input-found=$nf :: $(echo "$out" | tail -1 | cut -c1-160)"
  echo "$out" | grep '^VIOLATION' | head -2
  git -C "$VERIF_REPO" checkout -- .
done < "$LIST"
