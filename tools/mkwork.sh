#!/bin/bash
# tools/mkwork.sh <name>: private worktrees of /verif and /repo for one builder (AGENT_GUIDE.md section 0)
set -e
n=$1; W=/work/$n
mkdir -p $W
git -C /verif worktree add -q $W/verif -b $n
git -C /repo worktree add -q $W/repo -b fix-$n
cp /repo/fastparquet/*.c /repo/fastparquet/*.so $W/repo/fastparquet/
echo $W
