#!/usr/bin/env python3
"""Rewrite builder-branch commit ids in findings.d/*.json, manifest.d/*.json and notes/*.md to the ids the same commits have
in /repo main (they were cherry-picked: matched by `cherry picked from commit` lines where present, else by identical subject)."""
import glob, json, os, re, subprocess
def sh(c): return subprocess.run(c, shell=True, capture_output=True, text=True).stdout
m = {}
for e in sh("git -C /repo log main --format='%H%x00%s%x00%b%x01'").split("\x01"):
    e = e.strip("\n")
    if not e: continue
    h, s, b = e.split("\x00")
    for orig in re.findall(r"cherry picked from commit ([0-9a-f]{40})", b):
        m[orig[:7]] = h[:7]
subj2main = {}
for l in sh("git -C /repo log main --format='%h%x00%s'").strip().split("\n"):
    h, s = l.split("\x00"); subj2main.setdefault(s, h)
for b in sh("git -C /repo branch --format='%(refname:short)'").split():
    if b == "main": continue
    for l in sh("git -C /repo log main..%s --format='%%h%%x00%%s'" % b).strip().split("\n"):
        if not l: continue
        h, s = l.split("\x00")
        if s in subj2main: m[h] = subj2main[s]
here = os.path.join(os.path.dirname(os.path.abspath(__file__)), "..")
n = 0
for f in glob.glob(os.path.join(here, "findings.d", "*.json")) + glob.glob(os.path.join(here, "manifest.d", "C*.json")) + glob.glob(os.path.join(here, "notes", "*.md")):
    t = open(f).read()
    t2 = re.sub(r"\b([0-9a-f]{7})\b", lambda mo: m.get(mo.group(1), mo.group(1)), t)
    if t2 != t:
        open(f, "w").write(t2); n += 1
print("mapping entries:", len(m), "files rewritten:", n)
