#!/usr/bin/env python3
"""Rewrite builder-branch commit ids in findings.d/*.json, manifest.d/*.json and notes/*.md to the ids the same
commits have in /repo main (they were cherry-picked with -x, so main's messages name the original id)."""
import glob, json, os, re, subprocess
log = subprocess.run("git -C /repo log --format='%H%x00%s%x00%b%x01'", shell=True, capture_output=True, text=True).stdout.split("\x01")
m = {}
for e in log:
    e = e.strip("\n")
    if not e:
        continue
    h, s, b = e.split("\x00")
    for orig in re.findall(r"cherry picked from commit ([0-9a-f]{40})", b):
        m[orig[:7]] = h[:7]
# the split-off datetime hunk of e1e1d2a
here = os.path.join(os.path.dirname(os.path.abspath(__file__)), "..")
n = 0
for f in glob.glob(os.path.join(here, "findings.d", "*.json")) + glob.glob(os.path.join(here, "manifest.d", "C*.json")) + glob.glob(os.path.join(here, "notes", "*.md")):
    t = open(f).read()
    t2 = re.sub(r"\b([0-9a-f]{7})\b", lambda mo: m.get(mo.group(1), mo.group(1)), t)
    if t2 != t:
        open(f, "w").write(t2); n += 1
print("mapping entries:", len(m), "files rewritten:", n)
