#!/bin/bash
# tools/fullpass.sh [tier] [ids...]: run the checks one after another on the current tree; one summary line each
cd "$(dirname "$0")/.."
tier=${1:-quick}; shift
ids=${@:-C01 C02 C03 C04 C05 C06 C07 C08 C09 C10 C11 C12 C13 C14 C15 C16 C17 C18 C19 C20}
mkdir -p build/fullpass
for id in $ids; do
  t0=$(date +%s)
  timeout 3000 ./check $id --tier $tier > build/fullpass/$id.log 2>&1; rc=$?
  echo "$id exit=$rc $(( $(date +%s) - t0 ))s viol=$(grep -c '^VIOLATION' build/fullpass/$id.log) known=$(grep -c '^KNOWN-FINDING' build/fullpass/$id.log) | $(tail -1 build/fullpass/$id.log | cut -c1-160)"
done
